"""Per-property configuration of the orchestrator: lanes x shards per tier, evidence level and rule,
and the texts that gen_manifest.py puts into MANIFEST.json."""


def L(dbg=0, rel=0, asan=0, miri=0, vg=0):
    d = {}
    for k, v in (("miri", miri), ("vg", vg), ("asan", asan), ("dbg", dbg), ("rel", rel)):
        if v:
            d[k] = v
    return d


NOTE = ("Trusted: the reference model and oracles in harness/src (model.rs, monitor.rs, ops.rs), the drop ledger, rustc/std "
        "(std's vec::IntoIter as the ideal sequence), and the sanitizers' own detection limits. Holds only for the executions "
        "enumerated within the bounds reported in the evidence file; says nothing about larger shapes or longer histories.")

LANES_STD = {"quick": L(dbg=4, rel=4, asan=4, miri=8), "thorough": L(dbg=8, rel=8, asan=8, miri=16, vg=8)}
LANES_HEAVY = {"quick": L(dbg=8, rel=8, asan=8, miri=12), "thorough": L(dbg=16, rel=16, asan=16, miri=16, vg=8)}

PROPS = {
    "C04": {
        "level": "exploration",
        "lanes": LANES_HEAVY,
        "rule": "every proper non-empty window of every parent shape up to NxN x receiver {view_mut, nested view_mut of view_mut, third-party wrapper over view_mut} is one case; inside it every trait operation kind (indexed writes, fill, swap family, row_pair_mut, 7 walk patterns over rows_mut/col_mut/cells_mut incl. nth/nth_back/rev/step_by, copy/clone from slice and from owned/view/strided sources, copy_within, all 11 sort variants on every line, translate with every mid, flips) with valid arguments (exhaustive where cheap, seeded otherwise), on Copy and owning elements. Oracle: every parent cell outside the window unchanged; inside equals the model AND equals the same call on an owned twin holding the same cells; yielded addresses equal the expected parent cells. distinct = (receiver, parent shape, window, operation+arguments, element type); non-trivial = window is a proper sub-rectangle with >=1 cell and the case passed all oracles.",
        "must_observe": ["accepted", "twin_comparisons", "addresses_compared"],
        "text": "Runtime exploration: every mutating trait operation is executed on mutable views at every window position of every small parent, and the whole parent is diffed against a snapshot (outside) and a reference model plus an owned-twin differential (inside); the same executions run under ub_checks, release, ASan, Miri and memcheck.",
        "design_ref": "DESIGN.md 5 (C04)", "technique": "runtime monitoring: snapshot diff + reference model + owned-twin differential, sanitizer lanes",
    },
    "C06": {
        "level": "exploration", "exhaustive": True,
        "lanes": LANES_STD,
        "rule": "bounded-exhaustive: every shape {(0,0)} u [1..N]^2 x capacity class {exact, reserve_exact of the needed amount, spare, partial = spare capacity smaller than the inserted line} x axis x element type {Kv(Copy), Tok(owning, ledger), Zst} is one case; inside it every index 0..=dim+1 and usize::MAX, every supplied length 0..=dim+1 (0..=N+1 on empty arrays), insert_* and push_* forms, four honest iterator kinds. distinct = (axis, shape, index, length, capacity class, element type, form, accepted|rejected); non-trivial = an accepted call that inserted >=1 element, or a rejection on a non-empty array, and the post-state passed shape+model+ledger checks. Plus giant arrays of zero-sized elements (dimensions such as (2^32+1)x(2^32-1), 3x(usize::MAX/3), usize::MAXx1), where sums and products of REAL in-range dimensions approach usize::MAX: judged by sizes, lengths and the must-panic rule.",
        "must_observe": ["accepted", "rejected"],
        "text": "Bounded-exhaustive runtime exploration: every insert_row/insert_col/push_* call over all shapes up to NxN, all indices and lengths in and out of range, three element types and three capacity classes is executed against the real crate and compared cell-for-cell (by element identity) with a rows-of-cells model; the same executions run under debug assertions/ub_checks, release, AddressSanitizer, Miri and (thorough) memcheck.",
        "design_ref": "DESIGN.md 5 (C06)", "technique": "runtime monitoring: reference-model oracle + drop ledger over exhaustive small-scope executions, under ASan/Miri/memcheck/ub_checks",
    },
    "C07": {
        "level": "exploration", "exhaustive": True,
        "lanes": LANES_STD,
        "rule": "bounded-exhaustive: every shape x axis x capacity class x element type is one case; inside it every index 0..dim (plus dim, dim+1, usize::MAX which must be rejected, and pop on empty), remove_* and pop_* forms, every (front,back) split with front+back<=len in three interleavings (front-first, back-first, alternating) with len()/size_hint() probed after every take, then drop. distinct = (axis, shape, index, front, back, interleaving, element type, form); non-trivial = the drain and the post-drop array passed item/len/shape/model/ledger checks. Plus giant arrays of zero-sized elements (dimensions such as (2^32+1)x(2^32-1), 3x(usize::MAX/3), usize::MAXx1), where sums and products of REAL in-range dimensions approach usize::MAX: judged by sizes, lengths and the must-panic rule.",
        "must_observe": ["drain_items", "rejected"],
        "text": "Bounded-exhaustive runtime exploration of remove_row/remove_col/pop_*: every index, every drain consumption split and interleaving, compared item-by-item with an ideal sequence and afterwards cell-for-cell with the model; the ledger shows each element owned exactly once; same executions under the sanitizer lanes.",
        "design_ref": "DESIGN.md 5 (C07)", "technique": "runtime monitoring: ideal-sequence + reference-model oracle, drop ledger, ASan/Miri/memcheck/ub_checks",
    },
    "C08": {
        "level": "exploration",
        "lanes": LANES_HEAVY,
        "rule": "case = (parent shape up to NxN, window incl. empty ones, receiver {owned, view, view of view, view_mut, nested view_mut, view of view_mut, TooDeeView::from(view_mut), TooDeeView::new / TooDeeViewMut::new over a slice longer than needed, TooDeeView::from(TooDeeViewMut::new(longer slice))}, iterator {rows, rows_mut}); inside it every call script up to depth 2 over {next, next_back, len, nth(n), nth_back(n)} with n in {0,1,2,rem-1,rem,rem+1,C-1,C,C+1,2C,C*R,usize::MAX,usize::MAX/stride+1,2^63}, depth 3-4 over a reduced alphabet, seeded random scripts of length 4-12 (plus O(1) length/step checks on giant arrays of zero-sized elements with dimensions near usize::MAX), each followed by a terminal {drop,count,last,fold,rfold,collect,rev-collect}; every result compared (items by address and length) with std's vec::IntoIter over the expected rows; yielded &mut rows kept alive, checked disjoint and written through. distinct = (parent, window, receiver, iterator) for which all scripts agreed; iterator states reached are counted separately.",
        "must_observe": ["iter_calls", "iter_states"],
        "text": "Runtime exploration over call sequences: rows()/rows_mut() of every receiver kind are driven by enumerated and random method scripts side by side with std's vec::IntoIter (the ideal double-ended exact-size sequence); results are compared by address, &mut rows are checked pairwise disjoint and written through to the parent.",
        "design_ref": "DESIGN.md 5 (C08-C10)", "technique": "runtime monitoring: differential against an ideal sequence over enumerated call scripts, address-identity oracle, sanitizer lanes",
    },
    "C09": {
        "level": "exploration",
        "lanes": LANES_HEAVY,
        "rule": "as C08 for col(c)/col_mut(c) of every column c of every window, with [i] on the remaining sequence added to the alphabet (i in {0,1,rem-1,rem,usize::MAX,usize::MAX/stride+1,2^63}: in range must denote the ideal item, out of range must panic), plus col(c)/col_mut(c) with c out of range on every receiver (must panic). distinct = (parent, window, receiver, iterator incl. column) for which all scripts agreed.",
        "must_observe": ["iter_calls", "index_calls", "rejected"],
        "text": "Runtime exploration over call sequences: col()/col_mut() of every column of every receiver kind driven by enumerated and random scripts (including indexing the remaining sequence with wrap-provoking indices) against std's vec::IntoIter; address identity, write-through and out-of-range rejection.",
        "design_ref": "DESIGN.md 5 (C08-C10)", "technique": "runtime monitoring: differential against an ideal sequence over enumerated call scripts, address-identity oracle, sanitizer lanes",
    },
    "C10": {
        "level": "exploration",
        "lanes": LANES_HEAVY,
        "rule": "as C08 for cells(), cells_mut() and the IntoIterator forms on &T / &mut T of owned arrays, views and mutable views; n values span within-row, row-crossing, exact-row-multiple, beyond-end and usize::MAX jumps from every combination of partially consumed front/back rows. distinct = (parent, window, receiver, iterator) for which all scripts agreed.",
        "must_observe": ["iter_calls", "iter_states"],
        "text": "Runtime exploration over call sequences: cells()/cells_mut()/IntoIterator forms driven by enumerated and random scripts against std's vec::IntoIter over the row-major cell list; every cell yielded exactly once, by address, and written through.",
        "design_ref": "DESIGN.md 5 (C08-C10)", "technique": "runtime monitoring: differential against an ideal sequence over enumerated call scripts, address-identity oracle, sanitizer lanes",
    },
    "C13": {
        "level": "exploration", "exhaustive": True,
        "lanes": LANES_STD,
        "rule": "case = (receiver shape up to NxN incl. empty, implementor placement {TooDee, TooDeeViewMut interior/edge/full windows, nested view, view over a slice, third-party Thin wrapper over owned and over view (trait defaults incl. default swap_rows)}); inside: fill, and swap / swap_rows / swap_cols / row_pair_mut over ALL index pairs from 0..=dim+1 u {usize::MAX} (equal, reversed, one or both out of range), on Copy and owning elements. Oracle: whole-parent model diff, (address,len) and order of row_pair_mut slices, must-panic rule. distinct = (implementor, shape, window, op+indices, accepted|rejected, element type). Plus giant arrays of zero-sized elements (dimensions such as (2^32+1)x(2^32-1), 3x(usize::MAX/3), usize::MAXx1), where sums and products of REAL in-range dimensions approach usize::MAX: judged by sizes, lengths and the must-panic rule.",
        "must_observe": ["accepted", "rejected", "addresses_compared"],
        "text": "Bounded-exhaustive runtime exploration of the swap/fill primitives on all three kinds of implementor (owned overrides, view overrides, trait defaults via a third-party wrapper): every index pair in and out of range, compared with the model over the whole parent buffer.",
        "design_ref": "DESIGN.md 5 (C13)", "technique": "runtime monitoring: reference-model diff + must-panic rule over exhaustive index pairs, sanitizer lanes",
    },
    "C14": {
        "level": "exploration", "exhaustive": True,
        "lanes": LANES_STD,
        "rule": "case = (destination shape up to NxN incl. empty, destination placement {owned, view windows, nested, direct, Thin; zero-extent windows at several positions}); inside: copy_from_slice/clone_from_slice with source length cells-1, cells, cells+1; copy_from_toodee/clone_from_toodee from owned / view / strided view_mut sources of equal, wider, taller, transposed and flattened size; copy_within for every source rectangle (valid ones and a sample of invalid ones) x every destination corner 0..=dim+1. Oracle: model diff over the whole parent (snapshot semantics for copy_within), must-panic rule. distinct = (placement, shape, op+arguments, accepted|rejected, element type).",
        "must_observe": ["accepted", "rejected"],
        "text": "Bounded-exhaustive runtime exploration of the copy operations: all source kinds and size relations, all copy_within rectangle/destination pairs (every overlap direction), empty destinations included, compared with the model over the whole parent buffer.",
        "design_ref": "DESIGN.md 5 (C14)", "technique": "runtime monitoring: reference-model diff + must-panic rule over exhaustive rectangles, sanitizer lanes",
    },
    "C15": {
        "level": "exploration", "exhaustive": True,
        "lanes": LANES_STD,
        "rule": "case = (shape up to NxN, receiver placement {owned, interior view, nested, Thin, direct}); inside: translate_with_wrap for every mid in (0..=C+1 u {usize::MAX}) x (0..=R+1 u {usize::MAX}), flip_rows, flip_cols, on Copy and (small shapes) owning elements. Oracle: the closed-form bijection cell by cell over the whole parent, must-panic for larger mids, per-case CPU bound for termination. distinct = (placement, shape, op+mid, accepted|rejected, element type).",
        "must_observe": ["accepted", "rejected"],
        "text": "Bounded-exhaustive runtime exploration of translate_with_wrap and the flips: every shape up to NxN and every mid, compared cell by cell with the stated formula; covers every gcd cycle structure and column offset within the bound.",
        "design_ref": "DESIGN.md 5 (C15)", "technique": "runtime monitoring: closed-form oracle over exhaustive (shape, mid) pairs, CPU-bounded progress, sanitizer lanes",
    },
    "C16": {
        "level": "exploration", "exhaustive": True,
        "lanes": LANES_STD,
        "rule": "case = (shape up to NxN, receiver placement {owned, interior view, nested, Thin over owned/view}, row index 0..=R+1 u {usize::MAX}); inside: every key row over the alphabet {0,1,2} (all 3^C tie patterns) x six variants (ord, unstable ord, by closure, unstable by closure, by key, unstable by key) x ascending/descending (reversing key function). Oracle: stable variants equal the model's stable sort of whole columns cell-for-cell (by element identity); unstable variants: key row ordered and the multiset of whole columns preserved; outside of the window unchanged; owned-twin differential for views; must-panic for out-of-range rows. distinct = (placement, shape, variant, row, direction, key pattern, element type); non-trivial = key pattern not already sorted, or a rejection.",
        "must_observe": ["accepted", "rejected"],
        "text": "Bounded-exhaustive runtime exploration of the six sort-by-row variants: all tie patterns over a 3-letter alphabet, every row index, three kinds of implementor, Copy and owning elements, compared with a stable-sort model / permutation-of-columns check.",
        "design_ref": "DESIGN.md 5 (C16/C17)", "technique": "runtime monitoring: stable-sort reference model + permutation check over all tie patterns, drop ledger, sanitizer lanes",
    },
    "C17": {
        "level": "exploration", "exhaustive": True,
        "lanes": LANES_STD,
        "rule": "as C16 for the five sort-by-column variants (ord, by closure, unstable by closure, by key, unstable by key): every key column over {0,1,2}, every column index 0..=C+1 u {usize::MAX}, non-square shapes included; Thin receivers run the trait-default swap_rows.",
        "must_observe": ["accepted", "rejected"],
        "text": "Bounded-exhaustive runtime exploration of the five sort-by-column variants: all tie patterns, every column index, three kinds of implementor, compared with a stable-sort model / permutation-of-rows check.",
        "design_ref": "DESIGN.md 5 (C16/C17)", "technique": "runtime monitoring: stable-sort reference model + permutation check over all tie patterns, drop ledger, sanitizer lanes",
    },
}

PROPS.update({
    "C01": {
        "level": "exploration",
        "lanes": LANES_HEAVY,
        "rule": "histories of safe public calls on an owned array, executed side by side with the rows-of-cells model; after EVERY step (accepted, rejected-with-panic) the shape invariant (dims*=len, zero rule, rows()/cells()/col(c) lengths, capacity), cell-by-cell equality with the model through data()/Index forms, and the ownership ledger are checked. (a) bounded-exhaustive: every history up to the depth bound over a reduced structural alphabet (insert_row/insert_col with every index 0..=d+1 and length 0..=d+1, remove_row/remove_col with every index and 4 drain splits, pop, clear, swap_dimensions, shrink_to_fit, clone) from six constructors; (b) seeded random histories of 40-60 steps over the full alphabet (constructors incl. invalid dims, insert/remove/push/pop with valid and invalid arguments and all drain splits, clear, swap_dimensions, capacity calls, data_mut writes, every in-place trait operation on the array and on random view_mut windows, From<view>), biased to stay small so that shrink-to-empty and regrow happen constantly; element types Tok (owning), Kv (Copy) and Zst. distinct = histories (identified by their step list / seed) that moved at least one element and passed every check; distinct (shape before, operation, shape after, accepted|rejected) transitions are counted separately.",
        "must_observe": ["steps", "rejected", "transitions", "passed_through_empty"],
        "text": "Runtime exploration over histories: a history interpreter drives the real TooDee and a rows-of-cells model with the same calls (exhaustively to a small depth, then randomly) and evaluates the shape invariant and cell equality after every step, including steps rejected with a panic; under ub_checks, release, ASan, Miri and memcheck.",
        "design_ref": "DESIGN.md 5 (C01)", "technique": "runtime monitoring: invariant hook at every quiescent point + executable reference model over exhaustive/random histories, sanitizer lanes",
    },
    "C02": {
        "level": "exploration", "exhaustive": True,
        "lanes": LANES_STD,
        "rule": "case = receiver (owned array of every shape up to NxN; TooDeeView / TooDeeViewMut at every window of every parent up to MxM; views built over a longer slice); inside it every coordinate (c,r) with c,r from {0..dim+2, usize::MAX, usize::MAX-1, usize::MAX/2, usize::MAX/2+1, 2^32, 2^63, rows whose stride product wraps to an in-range offset, columns whose sum wraps} is tried through every accessor form: x[(c,r)], x[r][c], x[r], col(c)[r], col(c).nth(r), rows().nth(r)[c], the IndexMut/col_mut forms, and (in range only) the unchecked getters. In range: all forms must yield the one expected address (parent base + (start.1+r)*stride + start.0+c; for owned arrays data()[r*num_cols+c]). Out of range: every checked form must panic and the buffer must be unchanged. Runs in overflow-checked (dbg) and overflow-unchecked (rel, asan) builds. distinct = receivers with >=1 cell that passed; coordinate classes reached are counted separately. Plus giant arrays of zero-sized elements (dimensions such as (2^32+1)x(2^32-1), 3x(usize::MAX/3), usize::MAXx1), where sums and products of REAL in-range dimensions approach usize::MAX: judged by sizes, lengths and the must-panic rule.",
        "must_observe": ["accessor_calls", "coord_classes"],
        "text": "Bounded-exhaustive runtime exploration of every checked accessor form on every receiver kind with in-range, just-out-of-range and wrap-provoking coordinates, in both overflow-checked and overflow-unchecked builds; judged by address identity and a must-panic rule.",
        "design_ref": "DESIGN.md 5 (C02)", "technique": "runtime monitoring: address-identity oracle + must-panic rule, debug and release builds, sanitizer lanes",
    },
    "C03": {
        "level": "exploration", "exhaustive": True,
        "lanes": LANES_STD,
        "rule": "depth 1: for every parent shape up to NxN and root kind {TooDee::view, TooDee::view_mut, TooDeeView::new(slice longer than needed).view, TooDeeViewMut::new(..).view / view_mut}, EVERY (start,end) with components in 0..=dim+1 (valid and invalid) plus huge coordinates; depth 2 and 3: every valid outer window chain x every innermost (start,end) pair, through the receiver chains V.V, M.V, M.M, V.V.V, M.V.V, M.M.V, M.M.M. Valid requests must succeed with size end-start (or (0,0)), every cell / rows() slice / col(c) item at the parent's address, and writes through view_mut must change exactly those root-buffer cells (whole buffer diffed; single-cell writes for small windows); invalid requests must panic. distinct = (depth, chain kind, parent shape, window path) that passed or was correctly rejected. Plus giant arrays of zero-sized elements (dimensions such as (2^32+1)x(2^32-1), 3x(usize::MAX/3), usize::MAXx1), where sums and products of REAL in-range dimensions approach usize::MAX: judged by sizes, lengths and the must-panic rule.",
        "must_observe": ["addresses_compared", "rejected", "cells_written_through"],
        "text": "Bounded-exhaustive runtime exploration of view/view_mut: every start/end pair, zero-extent windows anywhere, nesting depth 1-3 through all receiver kinds; judged by address identity of every cell, whole-buffer write-through diff, and the must-panic rule; Miri and ub_checks observe the slice formation itself.",
        "design_ref": "DESIGN.md 5 (C03)", "technique": "runtime monitoring: address-identity oracle + write-through diff + must-panic rule, Miri/ub_checks on slice formation",
    },
    "C05": {
        "level": "exploration", "leakcheck": True,
        "lanes": LANES_HEAVY,
        "rule": "panic-free histories (steps the model would reject are skipped, never executed) on arrays of owning elements: Tok (heap allocation + ledger entry, unique id) and Zst (counted creations/drops). Same interpreter as C01 plus conversions (Vec::from / Box::from round trips, into_iter consumed from both ends then dropped, clone, From<view>). After every step: every reachable element live, distinct, not simultaneously held by the caller, no double drop; at the end of each history everything is dropped and the ledger must be empty (Zst: created == dropped); LeakSanitizer, Miri's leak check and memcheck's leak check are ON in this workload. distinct = histories that moved >=1 owning element and passed.",
        "must_observe": ["steps", "tokens_created", "tokens_dropped", "drain_items"],
        "text": "Runtime exploration over panic-free histories with resource-owning and zero-sized counted elements: a drop ledger proves exactly-once ownership at every step and emptiness at the end; ASan/LSan, Miri (leak check on) and memcheck independently watch the heap allocations the elements own.",
        "design_ref": "DESIGN.md 5 (C05)", "technique": "runtime monitoring: drop ledger (exactly-once / conservation) over histories + LSan/Miri/memcheck leak and double-free detection",
    },
    "C11": {
        "level": "fault_enumeration",
        "lanes": LANES_STD,
        "rule": "crash-point enumeration: for every operation that runs caller code (insert_row/push_row/insert_col/push_col with an instrumented iterator; new; init; clone; fill, clone_from_slice, clone_from_toodee on owned arrays and on views; From<view>; remove_row/remove_col drains dropped after (front,back) items; clear; drop; all 11 sort variants on owned arrays and views) x every shape up to NxN x every index: a fault-free run counts the calls of each kind {into_iter, len, next, next_back, iterator drop, Clone, Default, element Drop, comparator, key function}, then for every kind and every k < count the k-th call panics (Drop faults are postponed while already unwinding). Lying iterators (len +1, +3, -1, 0, usize::MAX, usize::MAX/2+1, flickering; and claims that agree with the line length while the iterator holds fewer or more items) on empty and non-empty arrays, alone and combined with next() faults. After catch_unwind: shape invariant, every reachable element live+distinct+not caller-held, no double drop; then the survivor is used further (read all, push_row, insert_col, remove_col, two sorts, clone, remove_row, swap_dimensions, drop) and re-checked. Leaks are allowed. distinct = (operation, shape, index/arguments, callback kind, k) crash points at which a panic was actually injected and the survivor passed.",
        "must_observe": ["panics_injected", "survivor_followups", "lying_iterators"],
        "text": "Fault enumeration over crash points: every k-th call into caller-supplied code is made to panic in every operation that runs caller code, plus iterators that lie about their length; the array that survives catch_unwind is validated (shape invariant + ledger) and then used further and dropped, under ub_checks, release, ASan, Miri and memcheck.",
        "design_ref": "DESIGN.md 5 (C11)", "technique": "runtime monitoring with fault injection: k-th-callback panic enumeration, invariant + ledger check on the survivor, continued use, sanitizer lanes",
    },
    "C12": {
        "level": "fault_enumeration",
        "lanes": LANES_STD,
        "rule": "leak-point enumeration: every value the API returns that has a destructor or holds a borrow - DrainRow (remove_row, pop_row), DrainCol (remove_col, pop_col), Rows, RowsMut, Col, ColMut, Cells, CellsMut, TooDeeView, TooDeeViewMut (and a RowsMut of it), IntoIter - is mem::forget-ed after (front,back) items were taken, for every shape up to NxN, every index, Tok (owning), Zst and Kv (Copy, no drop glue) elements. Afterwards: shape invariant, every reachable element live+distinct+not caller-held and one of the original elements, borrow-only values leave the array unchanged; then the survivor is used further as in C11 and dropped; no double drop then or later. distinct = (returned type, shape, index, front, back, element type) that passed.",
        "must_observe": ["leaks_injected", "survivor_followups"],
        "text": "Fault enumeration over leak points: every returned drain / iterator / view is leaked at every consumption stage; the array is then validated, used further and dropped under the ledger and the sanitizer lanes.",
        "design_ref": "DESIGN.md 5 (C12)", "technique": "runtime monitoring with fault injection: mem::forget enumeration, invariant + ledger check, continued use, sanitizer lanes",
    },
    "C18": {
        "level": "exploration",
        "lanes": {"quick": L(dbg=4, rel=4, asan=2, miri=4), "thorough": L(dbg=8, rel=8, asan=4, miri=8)},
        "rule": "every shape up to NxN (incl. (0,0), 1xN, Nx1) plus seeded random shapes up to 12x12 x element types {u32, i64, String with quotes/backslashes/control characters/non-BMP/field-name look-alikes, Option<u32>, Vec<i32>, (u8,String)} x encoder {to_string, to_vec, to_writer, to_value} x decoder {from_str, from_slice, from_reader, from_value}: decode(encode(a)) must equal a by ==, size() and data(); every window of every parent up to MxM (and selected windows of 70x62 and 300x230 parents) serialised as TooDeeView<u32> and TooDeeViewMut<u32> must decode to TooDee::from(view); arrays reached through histories of operations (emptied row by row / column by column, popped, cleared and regrown, swap_dimensions, random valid steps) are round-tripped after every step. distinct = (element type, shape, encoder, decoder) / (view kind, parent, window, encoder, decoder) that round-tripped.",
        "must_observe": ["roundtrips_ok"],
        "text": "Runtime exploration: the full 4x4 encoder/decoder matrix of serde_json transports is run over all small shapes, six element types and every view window, and the decoded array is compared with the original.",
        "design_ref": "DESIGN.md 5 (C18)", "technique": "runtime monitoring: round-trip oracle over the transport matrix",
    },
    "C19": {
        "level": "exploration",
        "lanes": {"quick": L(dbg=4, rel=4, asan=2, miri=4), "thorough": L(dbg=8, rel=8, asan=4, miri=8)},
        "rule": "grammar-generated documents: every sequence of up to L field keys over {num_cols, num_rows, data, extra, num_col} (every subset, order and duplication of the three fields plus unknown ones), dimension literals {0,1,2,3,4,6,2^32,2^63,2^64-1,2^64,-1,1.5,1e3,2.0,\"3\",null,true,[],{},[2],-2^63-1,1E400}, data arrays of length prod-1, prod, prod+1, 0,1,2 with well- and ill-typed elements, non-array data; element types u32, String, Option<u8>; with/without whitespace; plus byte-level mutations (truncate, bit flip, delete, insert, duplicate a span), top-level non-objects, and an overflow-wrap sweep: every pair of huge dimension literals (2^31..2^64-1, incl. pairs whose product wraps to a small number) with data lengths equal to the WRAPPED product, 0, 1, 2. Each document goes through from_str, from_slice, from_reader, from_value. An independent classifier over the generated structure says must-reject (no consistent combination of stated occurrences) / consistent (exactly the three fields, consistent: if accepted - and the clean tree accepts all of them - dims and cells must be exactly as stated; a refusal is counted as consistent_rejected but is not a C19 violation) / either (unknown or duplicated fields: if accepted, dims and cells must be those of a consistent combination of stated occurrences). Never a panic; every accepted array satisfies the shape invariant. distinct = (element type, field pattern with value classes, class).",
        "must_observe": ["accepted", "rejected", "mutated_docs", "doc_classes", "overflow_wrap_docs"],
        "text": "Runtime exploration with a document grammar and an independent classifier: the deserialiser must never panic, must reject every inconsistent document, whatever it accepts must be exactly what the document states, and every accepted array must satisfy the shape invariant, over all four serde_json transports.",
        "design_ref": "DESIGN.md 5 (C19)", "technique": "runtime monitoring: grammar-based input generation + independent reference classifier + never-panic/shape oracle",
    },
    "C20": {
        "level": "exploration", "exhaustive": True,
        "lanes": LANES_STD,
        "rule": "constructors: every dimension pair over {0..N} u {usize::MAX, usize::MAX/2+1, 2^32, 2^32+1, 2^63} x buffer lengths {0, 1, prod-1, prod, prod+1, prod+7, the wrapped product} for from_vec, from_box (Kv, Tok, Zst), TooDeeView::new, TooDeeViewMut::new, and new/init on the same pairs (accepted products capped at 4096 cells): accepted results are compared with the model (dims, row-major cells: default / clone of the given value / the given buffer by identity; views by address), must-panic for overflow, misfit and exactly-one-zero dimension. From<view>/From<view_mut> for every window of every parent up to MxM (equal cells, fresh owners, parent untouched). Conversions Vec::from, Box::from, AsRef/AsMut, into_iter consumed (front,back) then dropped: cells row-major by identity, ledger exactly-once. The by-value iterator additionally runs side by side with std's vec::IntoIter over the expected cells under every script of up to two steps over {next, next_back, nth(k), nth_back(k)}, k in {0,1,2,C,n-1,n,n+1,usize::MAX}, then one of seven endings (drop, collect, rev().collect(), count, last, fold, rfold): items by identity, len/size_hint after every step, skipped elements dropped exactly once, no leak. clone(): equal, separate buffer, separate owners, mutating the clone leaves the original intact. Eq/Hash: ALL pairs of arrays with cells over {0,1} of up to K cells in every factorisation shape: a==b iff same dims and cells, a==b implies equal hashes; arrays with a NaN cell are unequal even to themselves. distinct = constructor (kind, dim classes, dims, buffer relation, element type, accepted|rejected), conversion, window and array-pair cases that passed. Plus giant arrays of zero-sized elements (dimensions such as (2^32+1)x(2^32-1), 3x(usize::MAX/3), usize::MAXx1), where sums and products of REAL in-range dimensions approach usize::MAX: judged by sizes, lengths and the must-panic rule.",
        "must_observe": ["accepted", "rejected", "eq_pairs"],
        "text": "Bounded-exhaustive runtime exploration of every constructor and conversion over small and overflow-provoking dimension pairs and buffer lengths, Copy / owning / zero-sized elements, plus an all-pairs Eq/Hash sweep; judged by the model, address identity, the ledger and the must-panic rule.",
        "design_ref": "DESIGN.md 5 (C20)", "technique": "runtime monitoring: reference model + must-panic rule + drop ledger over exhaustive dimension/buffer pairs, sanitizer lanes",
    },
})

# uniform thinning of the case list in the slow lanes (evidence reports the cases each lane executed)
STRIDES = {
    "C01": {"quick": {"asan": 3}, "thorough": {"asan": 6, "vg": 4}},
    "C05": {"thorough": {"vg": 2}},
    "C02": {"quick": {"miri": 2, "asan": 2}, "thorough": {"asan": 3, "vg": 3, "miri": 3}},
    "C08": {"quick": {"miri": 2}, "thorough": {"asan": 2, "vg": 3, "miri": 2}},
    "C09": {"quick": {"asan": 2}, "thorough": {"asan": 3, "vg": 3, "miri": 2}},
    "C10": {"quick": {"miri": 3, "asan": 2}, "thorough": {"asan": 3, "vg": 3, "miri": 3}},
    "C04": {"quick": {"miri": 4}},
    "C11": {"quick": {"miri": 2}},
    "C13": {"quick": {"asan": 3, "miri": 2}},
    "C14": {"quick": {"asan": 3, "miri": 4}},
    "C15": {"quick": {"miri": 4}},
    "C16": {"quick": {"miri": 2}},
    "C17": {"quick": {"miri": 2}},
    "C19": {"quick": {"miri": 3}},
}
for _k, _p in PROPS.items():
    _p.setdefault("note", NOTE)
    if _k in STRIDES:
        _p["stride"] = STRIDES[_k]
