"""Per-property configuration of the orchestrator: lanes x shards per tier, evidence level and rule."""

def L(dbg=0, rel=0, asan=0, miri=0, vg=0):
    d = {}
    for k, v in (("miri", miri), ("vg", vg), ("asan", asan), ("dbg", dbg), ("rel", rel)):
        if v:
            d[k] = v
    return d

PROPS = {
    "C06": {
        "level": "exploration", "exhaustive": True,
        "lanes": {"quick": L(dbg=4, rel=4, asan=4, miri=8), "thorough": L(dbg=8, rel=8, asan=8, miri=16, vg=8)},
        "rule": "bounded-exhaustive: every shape {(0,0)} u [1..N]^2 x capacity class {exact, reserve_exact, spare} x axis x element type {Kv(Copy), Tok(owning, ledger), Zst} is one case; inside it every index 0..=dim+1 and usize::MAX, every supplied length 0..=dim+1 (0..=N+1 on empty arrays), insert_* and push_* forms, four honest iterator kinds. distinct = (axis, shape, index, length, capacity class, element type, form, accepted|rejected); non-trivial = an accepted call that inserted >=1 element, or a rejection on a non-empty array, and the post-state passed shape+model+ledger checks.",
        "must_observe": ["accepted", "rejected"],
    },
    "C07": {
        "level": "exploration", "exhaustive": True,
        "lanes": {"quick": L(dbg=4, rel=4, asan=4, miri=8), "thorough": L(dbg=8, rel=8, asan=8, miri=16, vg=8)},
        "rule": "bounded-exhaustive: every shape x axis x capacity class x element type is one case; inside it every index 0..dim (plus dim, dim+1, usize::MAX which must be rejected, and pop on empty), remove_* and pop_* forms, every (front,back) split with front+back<=len in three interleavings (front-first, back-first, alternating) with len()/size_hint() probed after every take, then drop. distinct = (axis, shape, index, front, back, interleaving, element type, form); non-trivial = the drain and the post-drop array passed item/len/shape/model/ledger checks.",
        "must_observe": ["drain_items", "rejected"],
    },
}

_NOTE = "Trusted: the reference model (harness/src/model.rs), the drop ledger, rustc/std, and the sanitizers' own detection limits. Says nothing beyond the enumerated bounds reported in the evidence file."
MANIFEST_TEXT = {
    "C06": {"text": "Bounded-exhaustive runtime exploration: every insert_row/insert_col/push_* call over all shapes up to NxN, all indices and lengths in and out of range, three element types and three capacity classes is executed against the real crate and compared cell-for-cell (by element identity) with a rows-of-cells model; the same executions run under debug assertions/ub_checks, release, AddressSanitizer, Miri and (thorough) memcheck.", "design_ref": "DESIGN.md 5 (C06)", "note": _NOTE, "technique": "runtime monitoring: reference-model oracle + drop ledger over exhaustive small-scope executions, under ASan/Miri/memcheck/ub_checks"},
    "C07": {"text": "Bounded-exhaustive runtime exploration of remove_row/remove_col/pop_*: every index, every drain consumption split and interleaving, compared item-by-item with an ideal sequence and afterwards cell-for-cell with the model; ledger proves each element is owned exactly once; same executions under the sanitizer lanes.", "design_ref": "DESIGN.md 5 (C07)", "note": _NOTE, "technique": "runtime monitoring: ideal-sequence + reference-model oracle, drop ledger, ASan/Miri/memcheck/ub_checks"},
}
