"""Per-property configuration of the orchestrator: lanes x shards per tier, evidence level and rule,
and the texts that gen_manifest.py puts into MANIFEST.json."""


def L(dbg=0, rel=0, asan=0, miri=0, vg=0):
    d = {}
    for k, v in (("miri", miri), ("vg", vg), ("asan", asan), ("dbg", dbg), ("rel", rel)):
        if v:
            d[k] = v
    return d


NOTE = ("Trusted: the reference model and oracles in harness/src (model.rs, monitor.rs, ops.rs), the drop ledger, rustc/std "
        "(std's vec::IntoIter as the ideal sequence), and the sanitizers' own detection limits. Holds only for the executions "
        "enumerated within the bounds reported in the evidence file; says nothing about larger shapes or longer histories.")

LANES_STD = {"quick": L(dbg=4, rel=4, asan=4, miri=8), "thorough": L(dbg=8, rel=8, asan=8, miri=16, vg=8)}
LANES_HEAVY = {"quick": L(dbg=8, rel=8, asan=8, miri=8), "thorough": L(dbg=16, rel=16, asan=16, miri=16, vg=8)}

PROPS = {
    "C04": {
        "level": "exploration",
        "lanes": LANES_HEAVY,
        "rule": "every proper non-empty window of every parent shape up to NxN x receiver {view_mut, nested view_mut of view_mut, third-party wrapper over view_mut} is one case; inside it every trait operation kind (indexed writes, fill, swap family, row_pair_mut, 7 walk patterns over rows_mut/col_mut/cells_mut incl. nth/nth_back/rev/step_by, copy/clone from slice and from owned/view/strided sources, copy_within, all 11 sort variants on every line, translate with every mid, flips) with valid arguments (exhaustive where cheap, seeded otherwise), on Copy and owning elements. Oracle: every parent cell outside the window unchanged; inside equals the model AND equals the same call on an owned twin holding the same cells; yielded addresses equal the expected parent cells. distinct = (receiver, parent shape, window, operation+arguments, element type); non-trivial = window is a proper sub-rectangle with >=1 cell and the case passed all oracles.",
        "must_observe": ["accepted", "twin_comparisons", "addresses_compared"],
        "text": "Runtime exploration: every mutating trait operation is executed on mutable views at every window position of every small parent, and the whole parent is diffed against a snapshot (outside) and a reference model plus an owned-twin differential (inside); the same executions run under ub_checks, release, ASan, Miri and memcheck.",
        "design_ref": "DESIGN.md 5 (C04)", "technique": "runtime monitoring: snapshot diff + reference model + owned-twin differential, sanitizer lanes",
    },
    "C06": {
        "level": "exploration", "exhaustive": True,
        "lanes": LANES_STD,
        "rule": "bounded-exhaustive: every shape {(0,0)} u [1..N]^2 x capacity class {exact, reserve_exact, spare} x axis x element type {Kv(Copy), Tok(owning, ledger), Zst} is one case; inside it every index 0..=dim+1 and usize::MAX, every supplied length 0..=dim+1 (0..=N+1 on empty arrays), insert_* and push_* forms, four honest iterator kinds. distinct = (axis, shape, index, length, capacity class, element type, form, accepted|rejected); non-trivial = an accepted call that inserted >=1 element, or a rejection on a non-empty array, and the post-state passed shape+model+ledger checks.",
        "must_observe": ["accepted", "rejected"],
        "text": "Bounded-exhaustive runtime exploration: every insert_row/insert_col/push_* call over all shapes up to NxN, all indices and lengths in and out of range, three element types and three capacity classes is executed against the real crate and compared cell-for-cell (by element identity) with a rows-of-cells model; the same executions run under debug assertions/ub_checks, release, AddressSanitizer, Miri and (thorough) memcheck.",
        "design_ref": "DESIGN.md 5 (C06)", "technique": "runtime monitoring: reference-model oracle + drop ledger over exhaustive small-scope executions, under ASan/Miri/memcheck/ub_checks",
    },
    "C07": {
        "level": "exploration", "exhaustive": True,
        "lanes": LANES_STD,
        "rule": "bounded-exhaustive: every shape x axis x capacity class x element type is one case; inside it every index 0..dim (plus dim, dim+1, usize::MAX which must be rejected, and pop on empty), remove_* and pop_* forms, every (front,back) split with front+back<=len in three interleavings (front-first, back-first, alternating) with len()/size_hint() probed after every take, then drop. distinct = (axis, shape, index, front, back, interleaving, element type, form); non-trivial = the drain and the post-drop array passed item/len/shape/model/ledger checks.",
        "must_observe": ["drain_items", "rejected"],
        "text": "Bounded-exhaustive runtime exploration of remove_row/remove_col/pop_*: every index, every drain consumption split and interleaving, compared item-by-item with an ideal sequence and afterwards cell-for-cell with the model; the ledger shows each element owned exactly once; same executions under the sanitizer lanes.",
        "design_ref": "DESIGN.md 5 (C07)", "technique": "runtime monitoring: ideal-sequence + reference-model oracle, drop ledger, ASan/Miri/memcheck/ub_checks",
    },
    "C08": {
        "level": "exploration",
        "lanes": LANES_HEAVY,
        "rule": "case = (parent shape up to NxN, window incl. empty ones, receiver {owned, view, view of view, view_mut, nested view_mut, view of view_mut}, iterator {rows, rows_mut}); inside it every call script up to depth 2 over {next, next_back, len, nth(n), nth_back(n)} with n in {0,1,2,rem-1,rem,rem+1,C-1,C,C+1,2C,C*R,usize::MAX,usize::MAX/stride+1,2^63}, depth 3-4 over a reduced alphabet, seeded random scripts of length 4-12, each followed by a terminal {drop,count,last,fold,rfold,collect,rev-collect}; every result compared (items by address and length) with std's vec::IntoIter over the expected rows; yielded &mut rows kept alive, checked disjoint and written through. distinct = (parent, window, receiver, iterator) for which all scripts agreed; iterator states reached are counted separately.",
        "must_observe": ["iter_calls", "iter_states"],
        "text": "Runtime exploration over call sequences: rows()/rows_mut() of every receiver kind are driven by enumerated and random method scripts side by side with std's vec::IntoIter (the ideal double-ended exact-size sequence); results are compared by address, &mut rows are checked pairwise disjoint and written through to the parent.",
        "design_ref": "DESIGN.md 5 (C08-C10)", "technique": "runtime monitoring: differential against an ideal sequence over enumerated call scripts, address-identity oracle, sanitizer lanes",
    },
    "C09": {
        "level": "exploration",
        "lanes": LANES_HEAVY,
        "rule": "as C08 for col(c)/col_mut(c) of every column c of every window, with [i] on the remaining sequence added to the alphabet (i in {0,1,rem-1,rem,usize::MAX,usize::MAX/stride+1,2^63}: in range must denote the ideal item, out of range must panic), plus col(c)/col_mut(c) with c out of range on every receiver (must panic). distinct = (parent, window, receiver, iterator incl. column) for which all scripts agreed.",
        "must_observe": ["iter_calls", "index_calls", "rejected"],
        "text": "Runtime exploration over call sequences: col()/col_mut() of every column of every receiver kind driven by enumerated and random scripts (including indexing the remaining sequence with wrap-provoking indices) against std's vec::IntoIter; address identity, write-through and out-of-range rejection.",
        "design_ref": "DESIGN.md 5 (C08-C10)", "technique": "runtime monitoring: differential against an ideal sequence over enumerated call scripts, address-identity oracle, sanitizer lanes",
    },
    "C10": {
        "level": "exploration",
        "lanes": LANES_HEAVY,
        "rule": "as C08 for cells(), cells_mut() and the IntoIterator forms on &T / &mut T of owned arrays, views and mutable views; n values span within-row, row-crossing, exact-row-multiple, beyond-end and usize::MAX jumps from every combination of partially consumed front/back rows. distinct = (parent, window, receiver, iterator) for which all scripts agreed.",
        "must_observe": ["iter_calls", "iter_states"],
        "text": "Runtime exploration over call sequences: cells()/cells_mut()/IntoIterator forms driven by enumerated and random scripts against std's vec::IntoIter over the row-major cell list; every cell yielded exactly once, by address, and written through.",
        "design_ref": "DESIGN.md 5 (C08-C10)", "technique": "runtime monitoring: differential against an ideal sequence over enumerated call scripts, address-identity oracle, sanitizer lanes",
    },
    "C13": {
        "level": "exploration", "exhaustive": True,
        "lanes": LANES_STD,
        "rule": "case = (receiver shape up to NxN incl. empty, implementor placement {TooDee, TooDeeViewMut interior/edge/full windows, nested view, view over a slice, third-party Thin wrapper over owned and over view (trait defaults incl. default swap_rows)}); inside: fill, and swap / swap_rows / swap_cols / row_pair_mut over ALL index pairs from 0..=dim+1 u {usize::MAX} (equal, reversed, one or both out of range), on Copy and owning elements. Oracle: whole-parent model diff, (address,len) and order of row_pair_mut slices, must-panic rule. distinct = (implementor, shape, window, op+indices, accepted|rejected, element type).",
        "must_observe": ["accepted", "rejected", "addresses_compared"],
        "text": "Bounded-exhaustive runtime exploration of the swap/fill primitives on all three kinds of implementor (owned overrides, view overrides, trait defaults via a third-party wrapper): every index pair in and out of range, compared with the model over the whole parent buffer.",
        "design_ref": "DESIGN.md 5 (C13)", "technique": "runtime monitoring: reference-model diff + must-panic rule over exhaustive index pairs, sanitizer lanes",
    },
    "C14": {
        "level": "exploration", "exhaustive": True,
        "lanes": LANES_STD,
        "rule": "case = (destination shape up to NxN incl. empty, destination placement {owned, view windows, nested, direct, Thin; zero-extent windows at several positions}); inside: copy_from_slice/clone_from_slice with source length cells-1, cells, cells+1; copy_from_toodee/clone_from_toodee from owned / view / strided view_mut sources of equal, wider, taller, transposed and flattened size; copy_within for every source rectangle (valid ones and a sample of invalid ones) x every destination corner 0..=dim+1. Oracle: model diff over the whole parent (snapshot semantics for copy_within), must-panic rule. distinct = (placement, shape, op+arguments, accepted|rejected, element type).",
        "must_observe": ["accepted", "rejected"],
        "text": "Bounded-exhaustive runtime exploration of the copy operations: all source kinds and size relations, all copy_within rectangle/destination pairs (every overlap direction), empty destinations included, compared with the model over the whole parent buffer.",
        "design_ref": "DESIGN.md 5 (C14)", "technique": "runtime monitoring: reference-model diff + must-panic rule over exhaustive rectangles, sanitizer lanes",
    },
    "C15": {
        "level": "exploration", "exhaustive": True,
        "lanes": LANES_STD,
        "rule": "case = (shape up to NxN, receiver placement {owned, interior view, nested, Thin, direct}); inside: translate_with_wrap for every mid in (0..=C+1 u {usize::MAX}) x (0..=R+1 u {usize::MAX}), flip_rows, flip_cols, on Copy and (small shapes) owning elements. Oracle: the closed-form bijection cell by cell over the whole parent, must-panic for larger mids, per-case CPU bound for termination. distinct = (placement, shape, op+mid, accepted|rejected, element type).",
        "must_observe": ["accepted", "rejected"],
        "text": "Bounded-exhaustive runtime exploration of translate_with_wrap and the flips: every shape up to NxN and every mid, compared cell by cell with the stated formula; covers every gcd cycle structure and column offset within the bound.",
        "design_ref": "DESIGN.md 5 (C15)", "technique": "runtime monitoring: closed-form oracle over exhaustive (shape, mid) pairs, CPU-bounded progress, sanitizer lanes",
    },
    "C16": {
        "level": "exploration", "exhaustive": True,
        "lanes": LANES_STD,
        "rule": "case = (shape up to NxN, receiver placement {owned, interior view, nested, Thin over owned/view}, row index 0..=R+1 u {usize::MAX}); inside: every key row over the alphabet {0,1,2} (all 3^C tie patterns) x six variants (ord, unstable ord, by closure, unstable by closure, by key, unstable by key) x ascending/descending (reversing key function). Oracle: stable variants equal the model's stable sort of whole columns cell-for-cell (by element identity); unstable variants: key row ordered and the multiset of whole columns preserved; outside of the window unchanged; owned-twin differential for views; must-panic for out-of-range rows. distinct = (placement, shape, variant, row, direction, key pattern, element type); non-trivial = key pattern not already sorted, or a rejection.",
        "must_observe": ["accepted", "rejected"],
        "text": "Bounded-exhaustive runtime exploration of the six sort-by-row variants: all tie patterns over a 3-letter alphabet, every row index, three kinds of implementor, Copy and owning elements, compared with a stable-sort model / permutation-of-columns check.",
        "design_ref": "DESIGN.md 5 (C16/C17)", "technique": "runtime monitoring: stable-sort reference model + permutation check over all tie patterns, drop ledger, sanitizer lanes",
    },
    "C17": {
        "level": "exploration", "exhaustive": True,
        "lanes": LANES_STD,
        "rule": "as C16 for the five sort-by-column variants (ord, by closure, unstable by closure, by key, unstable by key): every key column over {0,1,2}, every column index 0..=C+1 u {usize::MAX}, non-square shapes included; Thin receivers run the trait-default swap_rows.",
        "must_observe": ["accepted", "rejected"],
        "text": "Bounded-exhaustive runtime exploration of the five sort-by-column variants: all tie patterns, every column index, three kinds of implementor, compared with a stable-sort model / permutation-of-rows check.",
        "design_ref": "DESIGN.md 5 (C16/C17)", "technique": "runtime monitoring: stable-sort reference model + permutation check over all tie patterns, drop ledger, sanitizer lanes",
    },
}

for _p in PROPS.values():
    _p.setdefault("note", NOTE)
