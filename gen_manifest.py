#!/usr/bin/env python3
"""Regenerates MANIFEST.json from checkcfg.PROPS (run after editing checkcfg.py)."""
import json, os, sys
sys.path.insert(0, os.path.dirname(os.path.abspath(__file__)))
from checkcfg import PROPS
props = [json.loads(l) for l in open(os.path.join(os.path.dirname(os.path.abspath(__file__)), "properties.jsonl"))]
checks, na = [], []
for p in props:
    pid = p["id"]
    if pid in PROPS:
        c = PROPS[pid]
        t = c
        checks.append({
            "property_id": pid,
            "quick_cmd": "./check %s --tier quick" % pid,
            "thorough_cmd": "./check %s --tier thorough" % pid,
            "evidence_file": "/verif/evidence/%s.json" % pid,
            "replay_cmd_template": "./check %s --replay {path}" % pid,
            "engine": "tdmon",
            "level_claimed": {"category": c["level"], "text": t["text"], "design_ref": t["design_ref"]},
            "level_note": t["note"],
            "technique": t["technique"],
        })
    else:
        na.append({"property_id": pid, "reason": "check not built yet in this stage (runtime monitoring applies; see DESIGN.md section 5)"})
m = {
    "version": 1,
    "setup_cmd": "./check --setup",
    "hooks": {
        "guard": "toodee_verif",
        "enable": "no source hooks are needed: every monitor observes toodee through its public API from the harness crate (harness/, path dependency on /repo); the guard name is reserved and unused",
        "baseline_off_cmd": "cd /repo && cargo test --workspace --no-fail-fast --offline",
        "source_commits": [],
        "add_only": True,
    },
    "engines": [{"name": "tdmon", "path": "/verif/harness", "serves_properties": sorted(PROPS.keys()),
                 "kind_free_text": "Rust harness linking the real crate from /repo's working tree; reference-model oracles, drop ledger, fault injector; run natively (debug: overflow checks + std ub_checks; release), under AddressSanitizer, Miri and valgrind memcheck by ./check"}],
    "checks": checks,
    "notes": "All checks rebuild the harness (and therefore /repo, a path dependency) on every invocation. Exit 2 = inconclusive (never folded into pass or violation). known_findings.json lists recorded/fixed defects.",
    "not_applicable": na,
}
json.dump(m, open(os.path.join(os.path.dirname(os.path.abspath(__file__)), "MANIFEST.json"), "w"), indent=1)
print("checks:", len(checks), "not_applicable:", len(na))
