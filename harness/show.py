import json,sys
d=json.load(sys.stdin); d['distinct']=len(d.pop('distinct_hashes'))
v=d.pop('violations')
print(json.dumps(d,indent=1)[:2500])
for x in v:
    print(x['count'], x['op'],'|',x['symptom']); 
    for w in x['witnesses'][:2]: print('     ',w[:600])
