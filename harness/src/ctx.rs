//! Run context: case enumeration / sharding / cursor, counters, distinct-set, violation records.
use std::cell::RefCell;
use std::collections::{BTreeMap, HashSet};
use std::fs::File;
use std::hash::{Hash, Hasher};
use std::io::Write;
use std::os::unix::fs::FileExt;
use std::panic::{self, AssertUnwindSafe};

#[derive(Clone, Copy, PartialEq, Eq, Debug)]
pub enum Tier {
    Quick,
    Thorough,
}

/// Size class of the lane the binary runs in (the binary itself cannot tell it is under valgrind).
#[derive(Clone, Copy, PartialEq, Eq, Debug)]
pub enum Scale {
    Native,
    Vg,
    Miri,
}

pub struct Viol {
    pub count: u64,
    pub first: Vec<String>,
}

pub struct Ctx {
    pub prop: String,
    pub tier: Tier,
    pub scale: Scale,
    pub lane: String,
    pub seed: u64,
    pub shard: (u64, u64),
    pub start: u64,
    pub only: Option<u64>,
    pub max_cases: Option<u64>,
    /// execute only every `stride`-th of this shard's cases (uniform thinning for slow lanes)
    pub stride: u64,
    pub mine: u64,
    /// running index over the whole (unsharded) enumeration
    pub next_idx: u64,
    pub cur_idx: u64,
    pub cur_desc: String,
    pub executed: u64,
    pub distinct: HashSet<u64>,
    pub counters: BTreeMap<String, u64>,
    pub sets: BTreeMap<String, HashSet<u64>>,
    pub samples: Vec<String>,
    /// a few individual evaluations (sub-cases) written out in full
    pub details: Vec<String>,
    pub detail_n: u64,
    pub violations: BTreeMap<String, Viol>,
    pub cursor: Option<File>,
    pub viol_log: Option<File>,
    pub stop: bool,
    pub debug_build: bool,
}

pub fn hash_of<T: Hash>(t: &T) -> u64 {
    let mut h = std::collections::hash_map::DefaultHasher::new();
    t.hash(&mut h);
    h.finish()
}

impl Ctx {
    /// Announce the next case of the enumeration. Returns true iff this process must execute it.
    /// The descriptor is only built for executed cases.
    #[inline]
    pub fn case(&mut self, desc: impl FnOnce() -> String) -> bool {
        let k = self.next_idx;
        self.next_idx += 1;
        if self.stop {
            return false;
        }
        if let Some(o) = self.only {
            if k != o {
                return false;
            }
        } else {
            if k < self.start || k % self.shard.1 != self.shard.0 {
                return false;
            }
            let m = (k / self.shard.1).wrapping_add(self.seed);
            if self.stride > 1 && m % self.stride != 0 {
                return false;
            }
            if let Some(m) = self.max_cases {
                if self.executed >= m {
                    self.stop = true;
                    return false;
                }
            }
        }
        self.cur_idx = k;
        crate::CUR_CASE.store(k, std::sync::atomic::Ordering::Relaxed);
        self.cur_desc = desc();
        self.executed += 1;
        if let Some(f) = &self.cursor {
            let mut buf = [b' '; 400];
            let s = format!("{}\t{}", k, self.cur_desc);
            let b = s.as_bytes();
            let n = b.len().min(399);
            buf[..n].copy_from_slice(&b[..n]);
            buf[399] = b'\n';
            let _ = f.write_at(&buf, 0);
        }
        // keep a few samples: first 3, then reservoir-ish by index hash
        if self.samples.len() < 3 {
            self.samples.push(format!("#{} {}", k, self.cur_desc));
        } else if self.samples.len() < 8 && hash_of(&(k, self.seed)) % 997 == 0 {
            self.samples.push(format!("#{} {}", k, self.cur_desc));
        }
        true
    }

    /// True if the enumeration can stop early (only/--max reached).
    pub fn done(&self) -> bool {
        self.stop || matches!(self.only, Some(o) if self.next_idx > o)
    }

    /// Offer one individual evaluation as a written-out sample (a handful are kept per process).
    #[inline]
    pub fn detail(&mut self, f: impl FnOnce() -> String) {
        // reservoir sample of 6 over everything offered
        self.detail_n += 1;
        const K: usize = 6;
        if self.details.len() < K {
            let d = f();
            self.details.push(format!("case#{} {}", self.cur_idx, d));
        } else {
            let j = (hash_of(&(self.detail_n, self.seed, 77u8)) % self.detail_n) as usize;
            if j < K {
                let d = f();
                self.details[j] = format!("case#{} {}", self.cur_idx, d);
            }
        }
    }

    /// Inner-loop thinning under Miri: true for one in `n` calls (always true in the other lanes).
    #[inline]
    pub fn thin(&mut self, n: u64) -> bool {
        if self.scale != Scale::Miri {
            return true;
        }
        self.mine = self.mine.wrapping_add(1);
        (self.mine.wrapping_add(self.seed)) % n == 0
    }

    #[inline]
    pub fn nontrivial<K: Hash>(&mut self, key: K) {
        self.distinct.insert(hash_of(&key));
    }

    #[inline]
    pub fn count(&mut self, name: &str, n: u64) {
        // heartbeat for the no-progress watchdog: monitors count something after every call under test
        crate::HEARTBEAT.fetch_add(1, std::sync::atomic::Ordering::Relaxed);
        if let Some(c) = self.counters.get_mut(name) {
            *c += n;
        } else {
            self.counters.insert(name.to_string(), n);
        }
    }

    #[inline]
    pub fn max(&mut self, name: &str, n: u64) {
        let e = self.counters.entry(name.to_string()).or_insert(0);
        if n > *e {
            *e = n;
        }
    }

    /// Count distinct members of a named set (reported as `<name>` = set size).
    #[inline]
    pub fn seen<K: Hash>(&mut self, name: &str, key: K) {
        let h = hash_of(&key);
        if let Some(s) = self.sets.get_mut(name) {
            s.insert(h);
        } else {
            let mut s = HashSet::new();
            s.insert(h);
            self.sets.insert(name.to_string(), s);
        }
    }

    /// Record an oracle mismatch for the current case. `op` and `symptom` form the signature.
    pub fn violation(&mut self, op: &str, symptom: &str, detail: String) {
        let sig = format!("{}|{}", op, symptom);
        let rec = format!("case#{} [{}] {}", self.cur_idx, self.cur_desc, detail);
        if let Some(f) = &mut self.viol_log {
            let line = serde_json::json!({"sig": sig, "case": self.cur_idx, "desc": self.cur_desc, "detail": detail});
            let _ = writeln!(f, "{}", line);
            let _ = f.flush();
        }
        let e = self.violations.entry(sig).or_insert(Viol { count: 0, first: vec![] });
        e.count += 1;
        if e.first.len() < 3 {
            e.first.push(rec);
        }
    }

    pub fn summary_json(&self) -> serde_json::Value {
        let mut counters = serde_json::Map::new();
        for (k, v) in &self.counters {
            counters.insert(k.clone(), (*v).into());
        }
        let mut sets = serde_json::Map::new();
        for (k, v) in &self.sets {
            sets.insert(k.clone(), (v.len() as u64).into());
        }
        let mut viols = vec![];
        for (sig, v) in &self.violations {
            let mut it = sig.splitn(2, '|');
            let op = it.next().unwrap_or("");
            let sym = it.next().unwrap_or("");
            viols.push(serde_json::json!({"op": op, "symptom": sym, "count": v.count, "witnesses": v.first}));
        }
        // distinct set is exported as hashes so that the orchestrator can union across shards/lanes
        let mut d: Vec<u64> = self.distinct.iter().copied().collect();
        d.sort_unstable();
        serde_json::json!({
            "prop": self.prop, "lane": self.lane, "shard": [self.shard.0, self.shard.1],
            "start": self.start, "enumerated": self.next_idx, "executed": self.executed,
            "distinct_hashes": d, "counters": counters, "sets": sets,
            "samples": self.samples, "details": self.details, "violations": viols,
        })
    }
}

thread_local! {
    pub static LAST_PANIC: RefCell<Option<String>> = const { RefCell::new(None) };
}

pub fn install_panic_hook() {
    panic::set_hook(Box::new(|info| {
        let msg = if let Some(s) = info.payload().downcast_ref::<&str>() {
            s.to_string()
        } else if let Some(s) = info.payload().downcast_ref::<String>() {
            s.clone()
        } else {
            "<non-string panic>".to_string()
        };
        let loc = info.location().map(|l| format!("{}:{}", l.file(), l.line())).unwrap_or_default();
        if msg.contains("unsafe precondition") {
            // non-unwinding panic: the process is about to abort; leave the witness on stderr
            eprintln!("ABORTING-PANIC: {} @ {}", msg, loc);
        }
        LAST_PANIC.with(|p| *p.borrow_mut() = Some(format!("{} @ {}", msg, loc)));
    }));
}

/// Top-level variant: never escalates.
pub fn catches_top<R>(f: impl FnOnce() -> R) -> Result<R, String> {
    match panic::catch_unwind(AssertUnwindSafe(f)) {
        Ok(r) => Ok(r),
        Err(_) => Err(LAST_PANIC.with(|p| p.borrow_mut().take()).unwrap_or_else(|| "<panic>".into())),
    }
}

/// Run `f`; Ok(result) or Err(panic message with location).
pub fn catches<R>(f: impl FnOnce() -> R) -> Result<R, String> {
    match panic::catch_unwind(AssertUnwindSafe(f)) {
        Ok(r) => Ok(r),
        Err(_) => {
            let m = LAST_PANIC.with(|p| p.borrow_mut().take()).unwrap_or_else(|| "<panic>".into());
            // harness-raised errors are tagged; they are never evidence about toodee. (Locations cannot
            // be used to tell harness panics apart: `Index::index` is #[track_caller], so panics inside
            // toodee's Index impls - including arithmetic overflow - are reported at the harness line.)
            if m.starts_with("harness:") {
                panic!("{}", m.rsplit_once(" @ ").map(|x| x.0).unwrap_or(&m));
            }
            Err(m)
        }
    }
}

/// xorshift-style deterministic PRNG (no external crates).
#[derive(Clone)]
pub struct Rng(pub u64);
impl Rng {
    pub fn new(seed: u64) -> Rng {
        let mut r = Rng(seed ^ 0x9E3779B97F4A7C15);
        r.next();
        r.next();
        r
    }
    pub fn from_parts(a: u64, b: u64, c: u64) -> Rng {
        Rng::new(hash_of(&(a, b, c)))
    }
    #[inline]
    pub fn next(&mut self) -> u64 {
        // splitmix64
        self.0 = self.0.wrapping_add(0x9E3779B97F4A7C15);
        let mut z = self.0;
        z = (z ^ (z >> 30)).wrapping_mul(0xBF58476D1CE4E5B9);
        z = (z ^ (z >> 27)).wrapping_mul(0x94D049BB133111EB);
        z ^ (z >> 31)
    }
    #[inline]
    pub fn below(&mut self, n: usize) -> usize {
        if n == 0 {
            0
        } else {
            (self.next() % n as u64) as usize
        }
    }
    #[inline]
    pub fn range(&mut self, lo: usize, hi_incl: usize) -> usize {
        lo + self.below(hi_incl - lo + 1)
    }
    #[inline]
    pub fn chance(&mut self, num: u64, den: u64) -> bool {
        self.next() % den < num
    }
    pub fn pick<'a, T>(&mut self, xs: &'a [T]) -> &'a T {
        &xs[self.below(xs.len())]
    }
}
