//! Instrumented element types, the drop ledger and the fault injector.
use std::cell::{Cell, RefCell};
use std::cmp::Ordering;
use std::hash::{Hash, Hasher};

// ------------------------------------------------------------------------------------------------
// Fault injector: "the k-th call of kind K panics".

#[derive(Clone, Copy, PartialEq, Eq, Debug, Hash)]
#[repr(usize)]
pub enum Kind {
    Next = 0,
    NextBack,
    Len,
    IntoIter,
    Clone,
    Default,
    Drop,
    Cmp,
    Key,
    IterDrop,
}
pub const NKINDS: usize = 10;
pub const ALL_KINDS: [Kind; NKINDS] = [
    Kind::Next,
    Kind::NextBack,
    Kind::Len,
    Kind::IntoIter,
    Kind::Clone,
    Kind::Default,
    Kind::Drop,
    Kind::Cmp,
    Kind::Key,
    Kind::IterDrop,
];

thread_local! {
    static CALLS: Cell<[u64; NKINDS]> = const { Cell::new([0; NKINDS]) };
    static ARMED: Cell<Option<(Kind, u64)>> = const { Cell::new(None) };
    static INJECTED: Cell<u64> = const { Cell::new(0) };
    static PAUSED: Cell<bool> = const { Cell::new(false) };
    static FIRED: Cell<bool> = const { Cell::new(false) };
}

/// Stop counting and injecting (the operation under test is over; harness-owned values may now drop).
pub fn fault_pause() {
    PAUSED.with(|p| p.set(true));
}
/// Did the armed fault fire since it was armed?
pub fn fault_fired() -> bool {
    FIRED.with(|f| f.get())
}

pub fn fault_reset() {
    CALLS.with(|c| c.set([0; NKINDS]));
    ARMED.with(|a| a.set(None));
    PAUSED.with(|p| p.set(false));
    FIRED.with(|f| f.set(false));
}
/// Arm: the call number `k` (0-based, counted from now) of kind `kind` panics.
pub fn fault_arm(kind: Kind, k: u64) {
    PAUSED.with(|p| p.set(false));
    FIRED.with(|f| f.set(false));
    CALLS.with(|c| c.set([0; NKINDS]));
    ARMED.with(|a| a.set(Some((kind, k))));
}
pub fn fault_disarm() -> bool {
    ARMED.with(|a| a.replace(None)).is_some()
}
pub fn fault_calls(kind: Kind) -> u64 {
    CALLS.with(|c| c.get()[kind as usize])
}
pub fn fault_injected_total() -> u64 {
    INJECTED.with(|c| c.get())
}

#[inline]
pub fn tick(kind: Kind) {
    if PAUSED.with(|p| p.get()) {
        return;
    }
    let n = CALLS.with(|c| {
        let mut a = c.get();
        let n = a[kind as usize];
        a[kind as usize] = n + 1;
        c.set(a);
        n
    });
    if let Some((k, at)) = ARMED.with(|a| a.get()) {
        if k == kind && at == n {
            if (kind == Kind::Drop || kind == Kind::IterDrop) && std::thread::panicking() {
                // never manufacture a double panic: postpone to the next call of this kind
                ARMED.with(|a| a.set(Some((k, at + 1))));
                return;
            }
            ARMED.with(|a| a.set(None));
            FIRED.with(|f| f.set(true));
            INJECTED.with(|c| c.set(c.get() + 1));
            panic!("injected fault: {:?}#{}", kind, n);
        }
    }
}

// ------------------------------------------------------------------------------------------------
// Ledger

#[derive(Default)]
pub struct Ledger {
    pub epoch: u32,
    /// 0 = never created, 1 = live, 2 = dropped ; index = id
    pub state: Vec<u8>,
    pub created: u64,
    pub dropped: u64,
    pub live: u64,
    pub max_live: u64,
    pub clones: u64,
    pub double_drops: Vec<u64>,
    pub zst_created: u64,
    pub zst_dropped: u64,
    pub total_created: u64,
    pub total_dropped: u64,
}

thread_local! {
    pub static LEDGER: RefCell<Ledger> = RefCell::new(Ledger { state: vec![0], ..Default::default() });
}

/// Start a new epoch: ids restart at 1; tokens of older epochs are ignored when they drop.
pub fn ledger_reset() {
    LEDGER.with(|l| {
        let mut l = l.borrow_mut();
        l.epoch = l.epoch.wrapping_add(1);
        l.state.clear();
        l.state.push(0);
        l.created = 0;
        l.dropped = 0;
        l.live = 0;
        l.max_live = 0;
        l.clones = 0;
        l.double_drops.clear();
        l.zst_created = 0;
        l.zst_dropped = 0;
    });
}
pub fn ledger<R>(f: impl FnOnce(&mut Ledger) -> R) -> R {
    LEDGER.with(|l| f(&mut l.borrow_mut()))
}
pub fn is_live(id: u64) -> bool {
    ledger(|l| l.state.get(id as usize).copied() == Some(1))
}
pub fn live_ids() -> Vec<u64> {
    ledger(|l| l.state.iter().enumerate().filter(|(_, s)| **s == 1).map(|(i, _)| i as u64).collect())
}

// ------------------------------------------------------------------------------------------------
// Element abstraction

pub trait Elem: Sized + 'static {
    const NAME: &'static str;
    const IS_ZST: bool = false;
    const OWNS: bool = false;
    /// Make a fresh element with a new unique id and the given key.
    fn fresh(key: u32) -> Self;
    fn uid(&self) -> u64;
    fn key(&self) -> u32;
    /// Re-create the value described by a model cell (Copy element types only).
    fn rebuild(_m: crate::model::Mc) -> Self {
        panic!("harness: element type cannot be rebuilt");
    }
    /// Does a clone carry the uid (Copy types) or mint a fresh one?
    const CLONE_KEEPS_UID: bool = false;
    /// Dispatch of the `T: Copy`-only CopyOps; only Copy element types override this.
    fn copy_call<X: toodee::CopyOps<Self>>(_x: &mut X, _c: CopyCall<'_, Self>) {
        panic!("harness: element type is not Copy");
    }
}

pub enum CopyCall<'a, T> {
    Slice(&'a [T]),
    Owned(&'a toodee::TooDee<T>),
    View(&'a toodee::TooDeeView<'a, T>),
    ViewMut(&'a toodee::TooDeeViewMut<'a, T>),
    Within(toodee::Coordinate, toodee::Coordinate, toodee::Coordinate),
}

thread_local! {
    static KV_NEXT: Cell<u32> = const { Cell::new(1) };
}
pub fn kv_reset() {
    KV_NEXT.with(|c| c.set(1));
}

/// Copy element: (key, uid). Ordering / equality / hash look at the key only.
#[derive(Clone, Copy, Debug, Default, serde::Serialize, serde::Deserialize)]
pub struct Kv {
    pub key: u32,
    pub uid: u32,
}
impl PartialEq for Kv {
    fn eq(&self, o: &Kv) -> bool {
        self.key == o.key
    }
}
impl Eq for Kv {}
impl PartialOrd for Kv {
    fn partial_cmp(&self, o: &Kv) -> Option<Ordering> {
        Some(self.cmp(o))
    }
}
impl Ord for Kv {
    fn cmp(&self, o: &Kv) -> Ordering {
        self.key.cmp(&o.key)
    }
}
impl Hash for Kv {
    fn hash<H: Hasher>(&self, h: &mut H) {
        self.key.hash(h)
    }
}
impl Elem for Kv {
    const NAME: &'static str = "Kv";
    const CLONE_KEEPS_UID: bool = true;
    fn rebuild(m: crate::model::Mc) -> Kv {
        Kv { key: m.key, uid: m.uid as u32 }
    }
    fn copy_call<X: toodee::CopyOps<Kv>>(x: &mut X, c: CopyCall<'_, Kv>) {
        match c {
            CopyCall::Slice(s) => x.copy_from_slice(s),
            CopyCall::Owned(o) => x.copy_from_toodee(o),
            CopyCall::View(v) => x.copy_from_toodee(v),
            CopyCall::ViewMut(v) => x.copy_from_toodee(v),
            CopyCall::Within(a, b, d) => x.copy_within((a, b), d),
        }
    }
    fn fresh(key: u32) -> Kv {
        let uid = KV_NEXT.with(|c| {
            let v = c.get();
            c.set(v + 1);
            v
        });
        Kv { key, uid }
    }
    fn uid(&self) -> u64 {
        self.uid as u64
    }
    fn key(&self) -> u32 {
        self.key
    }
}

/// Owning element: heap allocation + ledger entry. Clone mints a new id.
#[derive(Debug)]
pub struct Tok {
    pub id: u64,
    pub key: u32,
    pub epoch: u32,
    pub heap: Box<u64>,
}
impl Tok {
    fn mint(key: u32, is_clone: bool) -> Tok {
        let (id, epoch) = ledger(|l| {
            let id = l.state.len() as u64;
            l.state.push(1);
            l.created += 1;
            l.total_created += 1;
            l.live += 1;
            if l.live > l.max_live {
                l.max_live = l.live;
            }
            if is_clone {
                l.clones += 1;
            }
            (id, l.epoch)
        });
        Tok { id, key, epoch, heap: Box::new(id) }
    }
}
impl Elem for Tok {
    const NAME: &'static str = "Tok";
    const OWNS: bool = true;
    fn fresh(key: u32) -> Tok {
        Tok::mint(key, false)
    }
    fn uid(&self) -> u64 {
        self.id
    }
    fn key(&self) -> u32 {
        self.key
    }
}
impl Clone for Tok {
    fn clone(&self) -> Tok {
        tick(Kind::Clone);
        Tok::mint(self.key, true)
    }
}
impl Default for Tok {
    fn default() -> Tok {
        tick(Kind::Default);
        Tok::mint(0, false)
    }
}
impl Drop for Tok {
    fn drop(&mut self) {
        // record first, so that the ledger's witness exists before a sanitizer aborts on the Box
        let id = self.id;
        let ep = self.epoch;
        let heap_ok = *self.heap == id;
        LEDGER.with(|l| {
            let mut l = l.borrow_mut();
            if l.epoch != ep {
                return;
            }
            match l.state.get(id as usize).copied() {
                Some(1) => {
                    l.state[id as usize] = 2;
                    l.dropped += 1;
                    l.total_dropped += 1;
                    l.live -= 1;
                }
                _ => {
                    // leave the witness on stderr too: the allocator may abort the process on the Box below
                    eprintln!("LEDGER-DOUBLE-DROP id={}", id);
                    l.double_drops.push(id)
                }
            }
            if !heap_ok {
                l.double_drops.push(id | (1 << 62));
            }
        });
        tick(Kind::Drop);
    }
}
impl PartialEq for Tok {
    fn eq(&self, o: &Tok) -> bool {
        self.key == o.key
    }
}
impl Eq for Tok {}
impl PartialOrd for Tok {
    fn partial_cmp(&self, o: &Tok) -> Option<Ordering> {
        Some(self.cmp(o))
    }
}
impl Ord for Tok {
    fn cmp(&self, o: &Tok) -> Ordering {
        self.key.cmp(&o.key)
    }
}
impl Hash for Tok {
    fn hash<H: Hasher>(&self, h: &mut H) {
        self.key.hash(h)
    }
}

/// Zero-sized element whose creation and drop are counted.
#[derive(Debug, PartialEq, Eq, PartialOrd, Ord, Hash)]
pub struct Zst;
impl Zst {
    fn mint() -> Zst {
        ledger(|l| {
            l.zst_created += 1;
            l.total_created += 1;
        });
        Zst
    }
}
impl Elem for Zst {
    const NAME: &'static str = "Zst";
    const CLONE_KEEPS_UID: bool = true;
    const IS_ZST: bool = true;
    const OWNS: bool = true;
    fn fresh(_key: u32) -> Zst {
        Zst::mint()
    }
    fn uid(&self) -> u64 {
        0
    }
    fn key(&self) -> u32 {
        0
    }
}
impl Clone for Zst {
    fn clone(&self) -> Zst {
        tick(Kind::Clone);
        Zst::mint()
    }
}
impl Default for Zst {
    fn default() -> Zst {
        tick(Kind::Default);
        Zst::mint()
    }
}
impl Drop for Zst {
    fn drop(&mut self) {
        ledger(|l| {
            l.zst_dropped += 1;
            l.total_dropped += 1;
        });
        tick(Kind::Drop);
    }
}

// ------------------------------------------------------------------------------------------------
// Iterators handed to insert_row / insert_col

/// How the supplied iterator reports its length.
#[derive(Clone, Copy, PartialEq, Eq, Debug, Hash)]
pub enum LenLie {
    Honest,
    /// reports `real + d` (saturating)
    Plus(usize),
    /// reports `real - d` (saturating)
    Minus(usize),
    Fixed(usize),
    /// alternates between honest and honest+1 on successive calls
    Flicker,
}

/// ExactSize + DoubleEnded iterator over owned items with fault ticks and an optional lying `len()`.
pub struct SupIter<T> {
    pub items: std::collections::VecDeque<T>,
    pub lie: LenLie,
    pub len_calls: Cell<u32>,
    pub ticks: bool,
}
impl<T> SupIter<T> {
    pub fn new(items: Vec<T>, lie: LenLie, ticks: bool) -> SupIter<T> {
        SupIter { items: items.into(), lie, len_calls: Cell::new(0), ticks }
    }
}
impl<T> Iterator for SupIter<T> {
    type Item = T;
    fn next(&mut self) -> Option<T> {
        if self.ticks {
            tick(Kind::Next);
        }
        self.items.pop_front()
    }
    fn size_hint(&self) -> (usize, Option<usize>) {
        let n = self.len();
        (n, Some(n))
    }
}
impl<T> DoubleEndedIterator for SupIter<T> {
    fn next_back(&mut self) -> Option<T> {
        if self.ticks {
            tick(Kind::NextBack);
        }
        self.items.pop_back()
    }
}
impl<T> ExactSizeIterator for SupIter<T> {
    fn len(&self) -> usize {
        if self.ticks {
            tick(Kind::Len);
        }
        let real = self.items.len();
        let c = self.len_calls.get();
        self.len_calls.set(c + 1);
        match self.lie {
            LenLie::Honest => real,
            LenLie::Plus(d) => real.saturating_add(d),
            LenLie::Minus(d) => real.saturating_sub(d),
            LenLie::Fixed(n) => n,
            LenLie::Flicker => real + (c as usize & 1),
        }
    }
}
impl<T> Drop for SupIter<T> {
    fn drop(&mut self) {
        if self.ticks {
            tick(Kind::IterDrop);
        }
    }
}

/// IntoIterator wrapper whose `into_iter` is a fault point.
pub struct Sup<T>(pub SupIter<T>);
impl<T> IntoIterator for Sup<T> {
    type Item = T;
    type IntoIter = SupIter<T>;
    fn into_iter(self) -> SupIter<T> {
        if self.0.ticks {
            tick(Kind::IntoIter);
        }
        self.0
    }
}

// ------------------------------------------------------------------------------------------------
// Small Copy element types (1 and 2 bytes): code specialised on size_of::<T>() must hold for them too.
// uid == value (wraps: identities may repeat after 256 / 65536 fresh values, which only weakens the
// oracle, it cannot make it fire wrongly because the model tracks the same values).

thread_local! {
    static SM_NEXT: Cell<u32> = const { Cell::new(1) };
}

macro_rules! small_elem {
    ($name:ident, $ty:ty, $label:expr) => {
        #[derive(Clone, Copy, Debug, Default, PartialEq, Eq, PartialOrd, Ord, Hash)]
        pub struct $name(pub $ty);
        impl Elem for $name {
            const NAME: &'static str = $label;
            const CLONE_KEEPS_UID: bool = true;
            fn fresh(_key: u32) -> $name {
                let v = SM_NEXT.with(|c| {
                    let v = c.get();
                    c.set(v.wrapping_add(1));
                    v
                });
                $name(v as $ty)
            }
            fn uid(&self) -> u64 {
                self.0 as u64
            }
            fn key(&self) -> u32 {
                (self.0 % 3) as u32
            }
            fn rebuild(m: crate::model::Mc) -> $name {
                $name(m.uid as $ty)
            }
            fn copy_call<X: toodee::CopyOps<$name>>(x: &mut X, c: CopyCall<'_, $name>) {
                match c {
                    CopyCall::Slice(s) => x.copy_from_slice(s),
                    CopyCall::Owned(o) => x.copy_from_toodee(o),
                    CopyCall::View(v) => x.copy_from_toodee(v),
                    CopyCall::ViewMut(v) => x.copy_from_toodee(v),
                    CopyCall::Within(a, b, d) => x.copy_within((a, b), d),
                }
            }
        }
    };
}
small_elem!(Sm8, u8, "Sm8");
small_elem!(Sm16, u16, "Sm16");
