//! tdmon — runtime monitors for the toodee properties C01..C20.
//! One process = one shard of one property's case enumeration in one lane.
#![allow(clippy::all)]
#![allow(dead_code)]

mod ctx;
mod elem;
mod model;
mod monitor;
mod ops;
mod recv;
mod thin;

mod wl_access;
mod wl_ctor;
mod wl_hist;
mod wl_fault;
mod wl_insrem;
mod wl_iter;
mod wl_ops;
mod wl_serde;

use ctx::*;
use std::collections::{BTreeMap, HashSet};
use std::sync::atomic::{AtomicU64, Ordering};

pub static CUR_CASE: AtomicU64 = AtomicU64::new(u64::MAX);
pub static HEARTBEAT: AtomicU64 = AtomicU64::new(0);

fn usage() -> ! {
    eprintln!("usage: tdmon <C01..C20> [--tier quick|thorough] [--scale native|vg|miri] [--lane NAME] [--seed S] [--shard i/n] [--start k] [--only k] [--max m] [--cursor F] [--viollog F] [--out F]");
    std::process::exit(64);
}

fn cpu_ticks() -> u64 {
    let s = std::fs::read_to_string("/proc/self/stat").unwrap_or_default();
    // fields after the closing paren of comm
    if let Some(p) = s.rfind(')') {
        let f: Vec<&str> = s[p + 1..].split_whitespace().collect();
        // utime = field 14, stime = field 15 (1-based, comm is 2) => indices 11, 12 after ')'
        if f.len() > 12 {
            return f[11].parse::<u64>().unwrap_or(0) + f[12].parse::<u64>().unwrap_or(0);
        }
    }
    0
}

fn spawn_watchdog(prop: String, viollog: Option<String>, limit_ticks: u64) {
    std::thread::spawn(move || {
        let mut last_case = u64::MAX;
        let mut last_beat = 0u64;
        let mut start_ticks = cpu_ticks();
        loop {
            std::thread::sleep(std::time::Duration::from_millis(1000));
            let c = CUR_CASE.load(Ordering::Relaxed);
            let b = HEARTBEAT.load(Ordering::Relaxed);
            let now = cpu_ticks();
            // progress = a new case was started or a monitor counted an event (one call under test returned)
            if c != last_case || b != last_beat {
                last_case = c;
                last_beat = b;
                start_ticks = now;
                continue;
            }
            if c != u64::MAX && now.saturating_sub(start_ticks) > limit_ticks {
                let line = serde_json::json!({"sig": format!("{}|no-progress", prop), "case": c,
                    "desc": "", "detail": format!("case {}: a single call under test consumed more than {} CPU ticks without returning", c, limit_ticks)});
                if let Some(p) = &viollog {
                    use std::io::Write;
                    if let Ok(mut f) = std::fs::OpenOptions::new().append(true).create(true).open(p) {
                        let _ = writeln!(f, "{}", line);
                    }
                }
                eprintln!("NO-PROGRESS case {}", c);
                std::process::exit(4);
            }
        }
    });
}

fn main() {
    let args: Vec<String> = std::env::args().collect();
    if args.len() < 2 {
        usage();
    }
    if args[1] == "--probe" {
        println!("tdmon probe ok");
        return;
    }
    let prop = args[1].clone();
    let mut tier = Tier::Quick;
    let mut scale = Scale::Native;
    let mut lane = "dbg".to_string();
    let mut seed = 0u64;
    let mut shard = (0u64, 1u64);
    let mut start = 0u64;
    let mut only = None;
    let mut max_cases = None;
    let mut stride = 1u64;
    let mut cursor = None;
    let mut viollog: Option<String> = None;
    let mut out: Option<String> = None;
    let mut repo_src: Option<String> = None;
    let mut i = 2;
    while i < args.len() {
        let a = args[i].as_str();
        let v = args.get(i + 1).cloned().unwrap_or_default();
        match a {
            "--tier" => tier = if v == "thorough" { Tier::Thorough } else { Tier::Quick },
            "--scale" => {
                scale = match v.as_str() {
                    "miri" => Scale::Miri,
                    "vg" => Scale::Vg,
                    _ => Scale::Native,
                }
            }
            "--lane" => lane = v.clone(),
            "--seed" => seed = v.parse().unwrap_or(0),
            "--shard" => {
                let mut it = v.split('/');
                let a = it.next().and_then(|x| x.parse().ok()).unwrap_or(0);
                let b = it.next().and_then(|x| x.parse().ok()).unwrap_or(1);
                shard = (a, b);
            }
            "--start" => start = v.parse().unwrap_or(0),
            "--only" => only = v.parse().ok(),
            "--max" => max_cases = v.parse().ok(),
            "--stride" => stride = v.parse().unwrap_or(1),
            "--cursor" => cursor = std::fs::OpenOptions::new().write(true).create(true).truncate(true).open(&v).ok(),
            "--viollog" => viollog = Some(v.clone()),
            "--out" => out = Some(v.clone()),
            "--repo-src" => repo_src = Some(v.clone()),
            _ => usage(),
        }
        i += 2;
    }
    install_panic_hook();
    let viol_file = viollog.as_ref().and_then(|p| std::fs::OpenOptions::new().append(true).create(true).open(p).ok());
    let mut ctx = Ctx {
        prop: prop.clone(),
        tier,
        scale,
        lane,
        seed,
        shard,
        start,
        only,
        max_cases,
        stride,
        mine: 0,
        next_idx: 0,
        cur_idx: 0,
        cur_desc: String::new(),
        executed: 0,
        distinct: HashSet::new(),
        counters: BTreeMap::new(),
        sets: BTreeMap::new(),
        samples: vec![],
        details: vec![],
        detail_n: 0,
        violations: BTreeMap::new(),
        cursor,
        viol_log: viol_file,
        stop: false,
        debug_build: cfg!(debug_assertions),
    };
    if scale != Scale::Miri && !cfg!(miri) {
        // per-case CPU bound: 20 s native, 600 s under valgrind
        let limit = if scale == Scale::Vg { 60_000 } else { 2_000 };
        spawn_watchdog(prop.clone(), viollog.clone(), limit);
    }
    let r = catches_top(|| match prop.as_str() {
        "C01" => wl_hist::run_c01(&mut ctx),
        "C02" => wl_access::run_c02(&mut ctx),
        "C03" => wl_access::run_c03(&mut ctx),
        "C04" => wl_ops::run_c04(&mut ctx),
        "C05" => wl_hist::run_c05(&mut ctx),
        "C06" => wl_insrem::run_c06(&mut ctx),
        "C07" => wl_insrem::run_c07(&mut ctx),
        "C08" => wl_iter::run_c08(&mut ctx),
        "C09" => wl_iter::run_c09(&mut ctx),
        "C10" => wl_iter::run_c10(&mut ctx),
        "C11" => wl_fault::run_c11(&mut ctx),
        "C12" => wl_fault::run_c12(&mut ctx),
        "C13" => wl_ops::run_c13(&mut ctx),
        "C14" => wl_ops::run_c14(&mut ctx),
        "C15" => wl_ops::run_c15(&mut ctx),
        "C16" => wl_ops::run_c16(&mut ctx),
        "C17" => wl_ops::run_c17(&mut ctx),
        "C18" => wl_serde::run_c18(&mut ctx),
        "C19" => wl_serde::run_c19(&mut ctx),
        "C20" => wl_ctor::run_c20(&mut ctx),
        _ => usage(),
    });
    // A panic that escaped every rejection scope was raised on a call the monitor presumes valid
    // (reading back, building a receiver, ...). If its location lies inside toodee's own sources it
    // is toodee that refused a valid call: a violation, not a harness error. (The converse cannot be
    // concluded - #[track_caller] reports toodee's Index panics at harness lines - so everything
    // else stays a harness error and the verdict inconclusive.)
    let mut crate_panic = false;
    if let (Err(msg), Some(dir)) = (&r, &repo_src) {
        let loc = msg.rsplit_once(" @ ").map(|x| x.1).unwrap_or("");
        if !msg.starts_with("harness:") && loc.starts_with(dir.as_str()) {
            let file = loc.rsplit('/').next().unwrap_or("").split(':').next().unwrap_or("").to_string();
            ctx.violation(&format!("uncaught@{}", file), "valid-call-panicked-in-toodee", msg.clone());
            crate_panic = true;
        }
    }
    let s = ctx.summary_json();
    match &out {
        Some(p) => std::fs::write(p, serde_json::to_vec(&s).unwrap()).unwrap(),
        None => println!("{}", serde_json::to_string_pretty(&s).unwrap()),
    }
    if let Err(msg) = r {
        // what was observed up to the failing case has been written; the orchestrator resumes after it
        if crate_panic {
            eprintln!("TOODEE-PANIC case#{} [{}]: {}", ctx.cur_idx, ctx.cur_desc, msg);
            std::process::exit(5);
        }
        eprintln!("HARNESS-PANIC case#{} [{}]: {}", ctx.cur_idx, ctx.cur_desc, msg);
        std::process::exit(3);
    }
}
