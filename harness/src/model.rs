//! Reference model: a plain rows-of-cells grid, written from the property statements.
use std::cmp::Ordering;

pub const FRESH: u64 = u64::MAX;

#[derive(Clone, Copy, PartialEq, Eq, Debug, Hash)]
pub struct Mc {
    pub uid: u64,
    pub key: u32,
}

/// Err(()) = the call is outside the documented domain and must be rejected (panic), model unchanged.
pub type MRes<T> = Result<T, ()>;

#[derive(Clone, PartialEq, Eq, Debug)]
pub struct Grid {
    pub cols: usize,
    pub rows: usize,
    /// rows of cells
    pub cells: Vec<Vec<Mc>>,
}

impl Grid {
    pub fn empty() -> Grid {
        Grid { cols: 0, rows: 0, cells: vec![] }
    }
    /// Build from a row-major list. Caller guarantees consistency.
    pub fn from_flat(cols: usize, rows: usize, flat: &[Mc]) -> Grid {
        assert_eq!(cols * rows, flat.len());
        assert_eq!(cols == 0, rows == 0);
        let cells = (0..rows).map(|r| flat[r * cols..(r + 1) * cols].to_vec()).collect();
        Grid { cols, rows, cells }
    }
    pub fn flat(&self) -> Vec<Mc> {
        self.cells.iter().flatten().copied().collect()
    }
    pub fn uids(&self) -> Vec<u64> {
        self.cells.iter().flatten().map(|m| m.uid).collect()
    }
    pub fn size(&self) -> (usize, usize) {
        (self.cols, self.rows)
    }
    pub fn len(&self) -> usize {
        self.cols * self.rows
    }
    pub fn at(&self, c: usize, r: usize) -> Mc {
        self.cells[r][c]
    }
    pub fn col(&self, c: usize) -> Vec<Mc> {
        self.cells.iter().map(|row| row[c]).collect()
    }
    fn normalise(&mut self) {
        if self.cols == 0 || self.rows == 0 {
            self.cols = 0;
            self.rows = 0;
            self.cells.clear();
        }
    }

    // ---- structural operations (C06, C07, C01) ----

    pub fn insert_row(&mut self, i: usize, line: &[Mc]) -> MRes<()> {
        if i > self.rows {
            return Err(());
        }
        if self.rows == 0 {
            if line.is_empty() {
                return Ok(());
            }
            self.cols = line.len();
        } else if line.len() != self.cols {
            return Err(());
        }
        self.cells.insert(i, line.to_vec());
        self.rows += 1;
        Ok(())
    }

    pub fn insert_col(&mut self, i: usize, line: &[Mc]) -> MRes<()> {
        if i > self.cols {
            return Err(());
        }
        if self.cols == 0 {
            if line.is_empty() {
                return Ok(());
            }
            self.rows = line.len();
            self.cells = vec![vec![]; self.rows];
        } else if line.len() != self.rows {
            return Err(());
        }
        for (r, m) in line.iter().enumerate() {
            self.cells[r].insert(i, *m);
        }
        self.cols += 1;
        Ok(())
    }

    pub fn remove_row(&mut self, i: usize) -> MRes<Vec<Mc>> {
        if i >= self.rows {
            return Err(());
        }
        let line = self.cells.remove(i);
        self.rows -= 1;
        self.normalise();
        Ok(line)
    }

    pub fn remove_col(&mut self, i: usize) -> MRes<Vec<Mc>> {
        if i >= self.cols {
            return Err(());
        }
        let line = self.cells.iter_mut().map(|row| row.remove(i)).collect();
        self.cols -= 1;
        self.normalise();
        Ok(line)
    }

    pub fn clear(&mut self) {
        *self = Grid::empty();
    }

    /// Dimensions swap, flattened contents stay (no transpose).
    pub fn swap_dimensions(&mut self) {
        let flat = self.flat();
        *self = Grid::from_flat(self.rows, self.cols, &flat);
    }

    // ---- in-place primitives (C13) ----

    pub fn swap(&mut self, a: (usize, usize), b: (usize, usize)) -> MRes<()> {
        if a.0 >= self.cols || b.0 >= self.cols || a.1 >= self.rows || b.1 >= self.rows {
            return Err(());
        }
        let t = self.cells[a.1][a.0];
        self.cells[a.1][a.0] = self.cells[b.1][b.0];
        self.cells[b.1][b.0] = t;
        Ok(())
    }
    pub fn swap_rows(&mut self, r1: usize, r2: usize) -> MRes<()> {
        if r1 >= self.rows || r2 >= self.rows {
            return Err(());
        }
        self.cells.swap(r1, r2);
        Ok(())
    }
    pub fn swap_cols(&mut self, c1: usize, c2: usize) -> MRes<()> {
        if c1 >= self.cols || c2 >= self.cols {
            return Err(());
        }
        for row in &mut self.cells {
            row.swap(c1, c2);
        }
        Ok(())
    }
    /// fill with clones of `v`: `keep_uid` says whether a clone carries the uid (Copy types) or is fresh.
    pub fn fill(&mut self, v: Mc, keep_uid: bool) {
        let m = if keep_uid { v } else { Mc { uid: FRESH, key: v.key } };
        for row in &mut self.cells {
            for c in row.iter_mut() {
                *c = m;
            }
        }
    }

    // ---- copies (C14) ----

    pub fn copy_from_flat(&mut self, src: &[Mc], keep_uid: bool) -> MRes<()> {
        if src.len() != self.len() {
            return Err(());
        }
        let cols = self.cols;
        for (r, row) in self.cells.iter_mut().enumerate() {
            for (c, cell) in row.iter_mut().enumerate() {
                let s = src[r * cols + c];
                *cell = if keep_uid { s } else { Mc { uid: FRESH, key: s.key } };
            }
        }
        Ok(())
    }
    pub fn copy_from_grid(&mut self, src: &Grid, keep_uid: bool) -> MRes<()> {
        if src.size() != self.size() {
            return Err(());
        }
        self.copy_from_flat(&src.flat(), keep_uid)
    }
    /// Snapshot semantics: destination := prior contents of the source rectangle.
    pub fn copy_within(&mut self, tl: (usize, usize), br: (usize, usize), dest: (usize, usize)) -> MRes<()> {
        if tl.0 > br.0 || tl.1 > br.1 || br.0 > self.cols || br.1 > self.rows {
            return Err(());
        }
        let w = br.0 - tl.0;
        let h = br.1 - tl.1;
        match (dest.0.checked_add(w), dest.1.checked_add(h)) {
            (Some(x), Some(y)) if x <= self.cols && y <= self.rows => {}
            _ => return Err(()),
        }
        let snap = self.cells.clone();
        for r in 0..h {
            for c in 0..w {
                self.cells[dest.1 + r][dest.0 + c] = snap[tl.1 + r][tl.0 + c];
            }
        }
        Ok(())
    }

    // ---- translate / flips (C15) ----

    pub fn translate(&mut self, mc: usize, mr: usize) -> MRes<()> {
        if mc > self.cols || mr > self.rows {
            return Err(());
        }
        if self.len() == 0 {
            return Ok(());
        }
        let old = self.cells.clone();
        for r in 0..self.rows {
            for c in 0..self.cols {
                self.cells[r][c] = old[(r + mr) % self.rows][(c + mc) % self.cols];
            }
        }
        Ok(())
    }
    pub fn flip_rows(&mut self) {
        self.cells.reverse();
    }
    pub fn flip_cols(&mut self) {
        for row in &mut self.cells {
            row.reverse();
        }
    }

    // ---- sorts (C16, C17) ----

    /// Stable sort of whole columns by the keys found in `row`.
    pub fn sort_cols_by_row(&mut self, row: usize, cmp: &dyn Fn(u32, u32) -> Ordering) -> MRes<()> {
        if row >= self.rows {
            return Err(());
        }
        let mut order: Vec<usize> = (0..self.cols).collect();
        let keys: Vec<u32> = self.cells[row].iter().map(|m| m.key).collect();
        order.sort_by(|&a, &b| cmp(keys[a], keys[b]));
        let old = self.cells.clone();
        for r in 0..self.rows {
            for (newc, &oldc) in order.iter().enumerate() {
                self.cells[r][newc] = old[r][oldc];
            }
        }
        Ok(())
    }
    /// Stable sort of whole rows by the keys found in `col`.
    pub fn sort_rows_by_col(&mut self, col: usize, cmp: &dyn Fn(u32, u32) -> Ordering) -> MRes<()> {
        if col >= self.cols {
            return Err(());
        }
        let mut order: Vec<usize> = (0..self.rows).collect();
        let keys: Vec<u32> = self.cells.iter().map(|r| r[col].key).collect();
        order.sort_by(|&a, &b| cmp(keys[a], keys[b]));
        let old = self.cells.clone();
        for (newr, &oldr) in order.iter().enumerate() {
            self.cells[newr] = old[oldr].clone();
        }
        Ok(())
    }

    // ---- windows (C03, C04) ----

    /// Is (start,end) a valid window request?
    pub fn window_ok(&self, start: (usize, usize), end: (usize, usize)) -> bool {
        start.0 <= end.0 && start.1 <= end.1 && end.0 <= self.cols && end.1 <= self.rows
    }
    pub fn window(&self, start: (usize, usize), end: (usize, usize)) -> MRes<Grid> {
        if !self.window_ok(start, end) {
            return Err(());
        }
        let w = end.0 - start.0;
        let h = end.1 - start.1;
        if w == 0 || h == 0 {
            return Ok(Grid::empty());
        }
        let cells = (0..h).map(|r| self.cells[start.1 + r][start.0..end.0].to_vec()).collect();
        Ok(Grid { cols: w, rows: h, cells })
    }
    pub fn write_window(&mut self, start: (usize, usize), g: &Grid) {
        for r in 0..g.rows {
            for c in 0..g.cols {
                self.cells[start.1 + r][start.0 + c] = g.cells[r][c];
            }
        }
    }
}

/// All shapes {(0,0)} ∪ [1..=n]²
pub fn shapes(n: usize) -> Vec<(usize, usize)> {
    let mut v = vec![(0, 0)];
    for c in 1..=n {
        for r in 1..=n {
            v.push((c, r));
        }
    }
    v
}

/// All valid windows (start,end) with start<=end<=(C,R).
pub fn windows(cols: usize, rows: usize) -> Vec<((usize, usize), (usize, usize))> {
    let mut v = vec![];
    for s0 in 0..=cols {
        for s1 in 0..=rows {
            for e0 in s0..=cols {
                for e1 in s1..=rows {
                    v.push(((s0, s1), (e0, e1)));
                }
            }
        }
    }
    v
}
