//! Shape invariant (the C01 predicate), model comparison, token/ledger checks, address helpers.
use crate::ctx::Ctx;
use crate::elem::*;
use crate::model::*;
use std::collections::HashSet;
use toodee::*;

#[inline]
pub fn mc<T: Elem>(t: &T) -> Mc {
    Mc { uid: t.uid(), key: t.key() }
}
#[inline]
pub fn addr<T>(r: &T) -> usize {
    r as *const T as usize
}
#[inline]
pub fn saddr<T>(r: &[T]) -> (usize, usize) {
    (r.as_ptr() as usize, r.len())
}

/// Read any TooDeeOps implementor into a Grid through rows() only (sizes sanity-checked first).
pub fn read_ops<T: Elem, X: TooDeeOps<T>>(x: &X) -> Option<Grid> {
    let (c, r) = x.size();
    if (c == 0) != (r == 0) {
        return None;
    }
    let mut cells = Vec::with_capacity(r);
    for row in x.rows() {
        if row.len() != c {
            return None;
        }
        cells.push(row.iter().map(mc).collect::<Vec<_>>());
    }
    if cells.len() != r {
        return None;
    }
    Some(Grid { cols: c, rows: r, cells })
}

/// Build an owned array (and its model) of the given shape with fresh unique elements.
/// Keys come from `keyf(col,row)`.
pub fn build<T: Elem>(cols: usize, rows: usize, keyf: &dyn Fn(usize, usize) -> u32) -> (TooDee<T>, Grid) {
    let mut v = Vec::with_capacity(cols * rows);
    for r in 0..rows {
        for c in 0..cols {
            v.push(T::fresh(keyf(c, r)));
        }
    }
    let flat: Vec<Mc> = v.iter().map(mc).collect();
    let g = if cols == 0 || rows == 0 { Grid::empty() } else { Grid::from_flat(cols, rows, &flat) };
    // exact-capacity buffer: capacity()==len() so that any over-run leaves the allocation
    let t = TooDee::from_box(g.cols, g.rows, v.into_boxed_slice());
    (t, g)
}

/// Compare one actual cell with the model cell; FRESH model uids are adopted.
/// Returns false on mismatch.
#[inline]
pub fn cell_matches<T: Elem>(m: &mut Mc, a: &T) -> bool {
    if T::IS_ZST {
        return true;
    }
    if m.uid == FRESH {
        if a.key() != m.key {
            return false;
        }
        m.uid = a.uid();
        true
    } else {
        m.uid == a.uid() && m.key == a.key()
    }
}

/// The C01 predicate + cell equality with the model, using public observers only, ordered so that a
/// broken invariant is reported before any accessor relying on it is called.
/// Returns true when everything holds.
pub fn check_shape<T: Elem>(ctx: &mut Ctx, op: &str, a: &TooDee<T>, model: &mut Grid) -> bool {
    let cols = a.num_cols();
    let rows = a.num_rows();
    let dlen = a.data().len();
    ctx.count("shape_checks", 1);
    match cols.checked_mul(rows) {
        Some(p) if p == dlen => {}
        _ => {
            ctx.violation(op, "shape:dims-vs-len", format!("size=({},{}) data.len()={} model={:?}", cols, rows, dlen, model.size()));
            return false;
        }
    }
    if (cols == 0) != (rows == 0) {
        ctx.violation(op, "shape:one-zero-dim", format!("size=({},{}) data.len()={}", cols, rows, dlen));
        return false;
    }
    let mut ok = true;
    if a.size() != (cols, rows) {
        ctx.violation(op, "shape:size()", format!("size()={:?} vs ({},{})", a.size(), cols, rows));
        ok = false;
    }
    if a.is_empty() != (dlen == 0) {
        ctx.violation(op, "shape:is_empty", format!("is_empty={} len={}", a.is_empty(), dlen));
        ok = false;
    }
    if a.capacity() < dlen {
        ctx.violation(op, "shape:capacity", format!("capacity={} len={}", a.capacity(), dlen));
        ok = false;
    }
    let rl = a.rows().len();
    if rl != rows {
        ctx.violation(op, "shape:rows().len", format!("rows().len()={} num_rows={}", rl, rows));
        ok = false;
    }
    let cl = a.cells().len();
    if cl != dlen {
        ctx.violation(op, "shape:cells().len", format!("cells().len()={} expected {}", cl, dlen));
        ok = false;
    }
    for c in 0..cols {
        let l = a.col(c).len();
        if l != rows {
            ctx.violation(op, "shape:col(c).len", format!("col({}).len()={} num_rows={}", c, l, rows));
            ok = false;
        }
    }
    if (cols, rows) != model.size() {
        ctx.violation(op, "model:size", format!("size=({},{}) model={:?}", cols, rows, model.size()));
        return false;
    }
    if !ok {
        return false;
    }
    // cells: data(), Index<Coordinate>, Index<usize>
    let data = a.data();
    let base = data.as_ptr() as usize;
    let sz = std::mem::size_of::<T>();
    for r in 0..rows {
        let row = &a[r];
        if row.len() != cols || (sz != 0 && row.as_ptr() as usize != base + r * cols * sz) {
            ctx.violation(op, "shape:row-slice", format!("row {} slice {:?} base {:#x} cols {}", r, saddr(row), base, cols));
            return false;
        }
        for c in 0..cols {
            let m = &mut model.cells[r][c];
            let d = &data[r * cols + c];
            if !cell_matches(m, d) {
                ctx.violation(op, "model:cell", format!("cell ({},{}) = {:?} expected {:?}", c, r, mc(d), m));
                return false;
            }
            let i = &a[(c, r)];
            if sz != 0 && addr(i) != addr(d) {
                ctx.violation(op, "shape:index-coord-addr", format!("a[({},{})] at {:#x} data at {:#x}", c, r, addr(i), addr(d)));
                return false;
            }
        }
    }
    ctx.count("cells_compared", dlen as u64);
    true
}

/// For owning element types: every reachable element is live, all are distinct, none is held by the caller.
pub fn check_tokens<T: Elem>(ctx: &mut Ctx, op: &str, a: &TooDee<T>, held: &HashSet<u64>) -> bool {
    if !T::OWNS || T::IS_ZST {
        return true;
    }
    let mut seen = HashSet::with_capacity(a.data().len());
    for (i, e) in a.data().iter().enumerate() {
        let id = e.uid();
        if !is_live(id) {
            ctx.violation(op, "ledger:reachable-not-live", format!("data[{}] id {} is not live (dropped or never created)", i, id));
            return false;
        }
        if !seen.insert(id) {
            ctx.violation(op, "ledger:duplicate-owner", format!("id {} reachable twice (second at data[{}])", id, i));
            return false;
        }
        if held.contains(&id) {
            ctx.violation(op, "ledger:reachable-and-held", format!("id {} is in the array and was handed to the caller", id));
            return false;
        }
    }
    true
}

/// Report double drops recorded by the ledger since the last call.
pub fn check_double_drops(ctx: &mut Ctx, op: &str) -> bool {
    let dd = ledger(|l| std::mem::take(&mut l.double_drops));
    if !dd.is_empty() {
        ctx.violation(op, "ledger:double-drop", format!("ids dropped more than once (or corrupted): {:?}", &dd[..dd.len().min(8)]));
        return false;
    }
    let (c, d) = ledger(|l| (l.zst_created, l.zst_dropped));
    if d > c {
        ctx.violation(op, "ledger:zst-overdrop", format!("zero-sized elements: created {} dropped {}", c, d));
        return false;
    }
    true
}

/// At the end of a case in which nothing panicked and nothing was leaked: nothing may be left alive.
pub fn check_no_leak(ctx: &mut Ctx, op: &str) -> bool {
    let live = live_ids();
    let (zc, zd) = ledger(|l| (l.zst_created, l.zst_dropped));
    let mut ok = true;
    if !live.is_empty() {
        ctx.violation(op, "ledger:leak", format!("{} elements never dropped, e.g. ids {:?}", live.len(), &live[..live.len().min(8)]));
        ok = false;
    }
    if zc != zd {
        ctx.violation(op, "ledger:zst-conservation", format!("zero-sized elements: created {} dropped {}", zc, zd));
        ok = false;
    }
    ok
}

pub fn ledger_counts(ctx: &mut Ctx) {
    let (c, d, m, cl, zc, zd) = ledger(|l| (l.created, l.dropped, l.max_live, l.clones, l.zst_created, l.zst_dropped));
    ctx.count("tokens_created", c + zc);
    ctx.count("tokens_dropped", d + zd);
    ctx.count("token_clones", cl);
    ctx.max("tokens_max_live", m);
}
