//! The in-place trait operations as data (`Op`), their application to the real crate, to the model,
//! and the checker that runs one operation on one receiver and judges the outcome.
use crate::ctx::*;
use crate::elem::*;
use crate::model::*;
use crate::monitor::*;
use crate::recv::*;
use std::cmp::{Ordering, Reverse};
use std::collections::{HashSet, VecDeque};
use toodee::*;

#[derive(Clone, Copy, PartialEq, Eq, Debug, Hash)]
pub enum Walk {
    Fwd,
    Rev,
    Step2,
    RevStep2,
    Alt,
    NthSkip,
    NthBackSkip,
}
pub const WALKS: [Walk; 7] = [Walk::Fwd, Walk::Rev, Walk::Step2, Walk::RevStep2, Walk::Alt, Walk::NthSkip, Walk::NthBackSkip];

/// Order in which a walk visits the items 0..n of an ideal sequence.
pub fn walk_order(w: Walk, n: usize) -> Vec<usize> {
    match w {
        Walk::Fwd => (0..n).collect(),
        Walk::Rev => (0..n).rev().collect(),
        Walk::Step2 => (0..n).step_by(2).collect(),
        Walk::RevStep2 => (0..n).rev().step_by(2).collect(),
        Walk::Alt => {
            let mut v = vec![];
            let (mut lo, mut hi) = (0usize, n);
            loop {
                if lo >= hi {
                    break;
                }
                v.push(lo);
                lo += 1;
                if lo >= hi {
                    break;
                }
                hi -= 1;
                v.push(hi);
            }
            v
        }
        Walk::NthSkip => (0..n).skip(1).step_by(2).collect(),
        Walk::NthBackSkip => (0..n).rev().skip(1).step_by(2).collect(),
    }
}

/// Drive any double-ended iterator in the given walk, calling `f` for every yielded item.
pub fn drive_walk<I: DoubleEndedIterator + ExactSizeIterator>(mut it: I, w: Walk, mut f: impl FnMut(I::Item)) {
    match w {
        Walk::Fwd => {
            for x in it {
                f(x)
            }
        }
        Walk::Rev => {
            for x in it.rev() {
                f(x)
            }
        }
        Walk::Step2 => {
            for x in it.step_by(2) {
                f(x)
            }
        }
        Walk::RevStep2 => {
            for x in it.rev().step_by(2) {
                f(x)
            }
        }
        Walk::Alt => loop {
            match it.next() {
                Some(x) => f(x),
                None => break,
            }
            match it.next_back() {
                Some(x) => f(x),
                None => break,
            }
        },
        Walk::NthSkip => {
            while let Some(x) = it.nth(1) {
                f(x)
            }
        }
        Walk::NthBackSkip => {
            while let Some(x) = it.nth_back(1) {
                f(x)
            }
        }
    }
}

#[derive(Clone, Copy, PartialEq, Eq, Debug, Hash)]
pub enum SortVar {
    RowOrd,
    RowOrdUnst,
    ByRow,
    ByRowUnst,
    ByRowKey,
    ByRowKeyUnst,
    ColOrd,
    ByCol,
    ByColUnst,
    ByColKey,
    ByColKeyUnst,
}
pub const ROW_SORTS: [SortVar; 6] = [SortVar::RowOrd, SortVar::RowOrdUnst, SortVar::ByRow, SortVar::ByRowUnst, SortVar::ByRowKey, SortVar::ByRowKeyUnst];
pub const COL_SORTS: [SortVar; 5] = [SortVar::ColOrd, SortVar::ByCol, SortVar::ByColUnst, SortVar::ByColKey, SortVar::ByColKeyUnst];
impl SortVar {
    pub fn by_row(self) -> bool {
        matches!(self, SortVar::RowOrd | SortVar::RowOrdUnst | SortVar::ByRow | SortVar::ByRowUnst | SortVar::ByRowKey | SortVar::ByRowKeyUnst)
    }
    pub fn stable(self) -> bool {
        !matches!(self, SortVar::RowOrdUnst | SortVar::ByRowUnst | SortVar::ByRowKeyUnst | SortVar::ByColUnst | SortVar::ByColKeyUnst)
    }
    pub fn is_ord(self) -> bool {
        matches!(self, SortVar::RowOrd | SortVar::RowOrdUnst | SortVar::ColOrd)
    }
}

#[derive(Clone, Copy, PartialEq, Eq, Debug, Hash)]
pub enum SrcKind {
    Owned,
    View,
    ViewMut,
}
#[derive(Clone, Copy, PartialEq, Eq, Debug, Hash)]
pub enum SizeRel {
    Same,
    ColsPlus1,
    RowsPlus1,
    /// one row fewer than the destination, same width (an implementation that only walks the
    /// source's rows would stop early without noticing)
    RowsMinus1,
    ColsMinus1,
    Transposed,
    Flat,
}

#[derive(Clone, Copy, PartialEq, Eq, Debug, Hash)]
pub enum Op {
    SetCoord(usize, usize),
    SetRowCol(usize, usize),
    Fill,
    Swap((usize, usize), (usize, usize)),
    SwapRows(usize, usize),
    SwapCols(usize, usize),
    RowPair(usize, usize),
    RowsMut(Walk),
    ColMut(usize, Walk),
    CellsMut(Walk),
    /// source slice length = cells + delta
    CopyFromSlice(isize),
    CloneFromSlice(isize),
    CopyFromToodee(SrcKind, SizeRel),
    CloneFromToodee(SrcKind, SizeRel),
    CopyWithin((usize, usize), (usize, usize), (usize, usize)),
    Sort(SortVar, usize, bool),
    Translate(usize, usize),
    FlipRows,
    FlipCols,
}

impl Op {
    pub fn copy_only(&self) -> bool {
        matches!(self, Op::CopyFromSlice(_) | Op::CopyFromToodee(..) | Op::CopyWithin(..))
    }
    pub fn kind(&self) -> &'static str {
        match self {
            Op::SetCoord(..) => "index_mut(coord)",
            Op::SetRowCol(..) => "index_mut(row)[col]",
            Op::Fill => "fill",
            Op::Swap(..) => "swap",
            Op::SwapRows(..) => "swap_rows",
            Op::SwapCols(..) => "swap_cols",
            Op::RowPair(..) => "row_pair_mut",
            Op::RowsMut(_) => "rows_mut",
            Op::ColMut(..) => "col_mut",
            Op::CellsMut(_) => "cells_mut",
            Op::CopyFromSlice(_) => "copy_from_slice",
            Op::CloneFromSlice(_) => "clone_from_slice",
            Op::CopyFromToodee(..) => "copy_from_toodee",
            Op::CloneFromToodee(..) => "clone_from_toodee",
            Op::CopyWithin(..) => "copy_within",
            Op::Sort(v, _, _) => match v {
                SortVar::RowOrd => "sort_row_ord",
                SortVar::RowOrdUnst => "sort_unstable_row_ord",
                SortVar::ByRow => "sort_by_row",
                SortVar::ByRowUnst => "sort_unstable_by_row",
                SortVar::ByRowKey => "sort_by_row_key",
                SortVar::ByRowKeyUnst => "sort_unstable_by_row_key",
                SortVar::ColOrd => "sort_col_ord",
                SortVar::ByCol => "sort_by_col",
                SortVar::ByColUnst => "sort_unstable_by_col",
                SortVar::ByColKey => "sort_by_col_key",
                SortVar::ByColKeyUnst => "sort_unstable_by_col_key",
            },
            Op::Translate(..) => "translate_with_wrap",
            Op::FlipRows => "flip_rows",
            Op::FlipCols => "flip_cols",
        }
    }
}

/// Source dimensions for the *_from_toodee operations, given destination dims.
pub fn src_dims(rel: SizeRel, c: usize, r: usize) -> (usize, usize) {
    match rel {
        SizeRel::Same => (c, r),
        SizeRel::ColsPlus1 => {
            if r == 0 {
                (1, 1)
            } else {
                (c + 1, r)
            }
        }
        SizeRel::RowsPlus1 => {
            if c == 0 {
                (1, 1)
            } else {
                (c, r + 1)
            }
        }
        SizeRel::RowsMinus1 => match r {
            0 => (1, 1),
            1 => (0, 0),
            _ => (c, r - 1),
        },
        SizeRel::ColsMinus1 => match c {
            0 => (1, 1),
            1 => (0, 0),
            _ => (c - 1, r),
        },
        SizeRel::Transposed => (r, c),
        SizeRel::Flat => {
            if c * r == 0 {
                (0, 0)
            } else {
                (c * r, 1)
            }
        }
    }
}

/// A source for *_from_toodee: big owned array + window such that window has dims (sc, sr).
/// For SrcKind::Owned the big array is the source itself.
pub fn src_layout(kind: SrcKind, sc: usize, sr: usize) -> ((usize, usize), Win) {
    if sc == 0 {
        return ((0, 0), ((0, 0), (0, 0)));
    }
    match kind {
        SrcKind::Owned => ((sc, sr), ((0, 0), (sc, sr))),
        SrcKind::View => ((sc + 2, sr + 1), ((1, 1), (1 + sc, 1 + sr))),
        SrcKind::ViewMut => ((sc + 1, sr + 2), ((1, 0), (1 + sc, sr))),
    }
}

/// What the operation let the monitor observe: addresses of yielded items, in order.
pub type Obs = Vec<(usize, usize)>;

fn take<T>(vals: &mut VecDeque<T>) -> T {
    // running dry means the real operation visited more items than the ideal sequence has (the supply
    // is sized generously above the model's needs): that is evidence about toodee, not a harness error
    vals.pop_front().expect("monitor: the operation visited more items than the ideal sequence contains (value supply exhausted)")
}

/// Apply `op` to the real receiver. Runs inside catch_unwind at the call site.
pub fn apply_real<T: Elem + Clone + Ord, X: TooDeeOpsMut<T> + CopyOps<T>>(x: &mut X, op: &Op, vals: &mut VecDeque<T>) -> Obs {
    let mut obs: Obs = vec![];
    match *op {
        Op::SetCoord(c, r) => {
            let v = take(vals);
            let cell = &mut x[(c, r)];
            obs.push((addr(cell), 1));
            *cell = v;
        }
        Op::SetRowCol(c, r) => {
            let v = take(vals);
            let row = &mut x[r];
            obs.push(saddr(row));
            row[c] = v;
        }
        Op::Fill => {
            let v = take(vals);
            x.fill(v);
        }
        Op::Swap(a, b) => x.swap(a, b),
        Op::SwapRows(a, b) => x.swap_rows(a, b),
        Op::SwapCols(a, b) => x.swap_cols(a, b),
        Op::RowPair(a, b) => {
            let (r1, r2) = x.row_pair_mut(a, b);
            obs.push(saddr(r1));
            obs.push(saddr(r2));
            r1.swap_with_slice(r2);
        }
        Op::RowsMut(w) => {
            drive_walk(x.rows_mut(), w, |row| {
                obs.push(saddr(row));
                for cell in row.iter_mut() {
                    *cell = take(vals);
                }
            });
        }
        Op::ColMut(c, w) => {
            drive_walk(x.col_mut(c), w, |cell| {
                obs.push((addr(cell), 1));
                *cell = take(vals);
            });
        }
        Op::CellsMut(w) => {
            drive_walk(x.cells_mut(), w, |cell| {
                obs.push((addr(cell), 1));
                *cell = take(vals);
            });
        }
        Op::CopyFromSlice(d) | Op::CloneFromSlice(d) => {
            let n = (x.num_cols() * x.num_rows()) as isize + d;
            let n = if n < 0 { 0 } else { n as usize };
            let src: Vec<T> = (0..n).map(|_| take(vals)).collect();
            if matches!(op, Op::CopyFromSlice(_)) {
                T::copy_call(x, CopyCall::Slice(&src));
            } else {
                x.clone_from_slice(&src);
            }
        }
        Op::CopyFromToodee(k, rel) | Op::CloneFromToodee(k, rel) => {
            let (sc, sr) = src_dims(rel, x.num_cols(), x.num_rows());
            let ((bc, br), win) = src_layout(k, sc, sr);
            let flat: Vec<T> = (0..bc * br).map(|_| take(vals)).collect();
            let mut big = TooDee::from_vec(bc, br, flat);
            let copy = matches!(op, Op::CopyFromToodee(..));
            match k {
                SrcKind::Owned => {
                    if copy {
                        T::copy_call(x, CopyCall::Owned(&big))
                    } else {
                        x.clone_from_toodee(&big)
                    }
                }
                SrcKind::View => {
                    let v = big.view(win.0, win.1);
                    if copy {
                        T::copy_call(x, CopyCall::View(&v))
                    } else {
                        x.clone_from_toodee(&v)
                    }
                }
                SrcKind::ViewMut => {
                    let v = big.view_mut(win.0, win.1);
                    if copy {
                        T::copy_call(x, CopyCall::ViewMut(&v))
                    } else {
                        x.clone_from_toodee(&v)
                    }
                }
            }
        }
        Op::CopyWithin(a, b, d) => T::copy_call(x, CopyCall::Within(a, b, d)),
        Op::Sort(var, idx, desc) => {
            let cmp = |a: &T, b: &T| {
                tick(Kind::Cmp);
                if desc {
                    b.key().cmp(&a.key())
                } else {
                    a.key().cmp(&b.key())
                }
            };
            let keyf = |a: &T| {
                tick(Kind::Key);
                if desc {
                    (Reverse(a.key()), 0u32)
                } else {
                    (Reverse(0), a.key())
                }
            };
            match var {
                SortVar::RowOrd => x.sort_row_ord::<()>(idx),
                SortVar::RowOrdUnst => x.sort_unstable_row_ord::<()>(idx),
                SortVar::ByRow => x.sort_by_row(idx, cmp),
                SortVar::ByRowUnst => x.sort_unstable_by_row(idx, cmp),
                SortVar::ByRowKey => x.sort_by_row_key(idx, keyf),
                SortVar::ByRowKeyUnst => x.sort_unstable_by_row_key(idx, keyf),
                SortVar::ColOrd => x.sort_col_ord::<()>(idx),
                SortVar::ByCol => x.sort_by_col(idx, cmp),
                SortVar::ByColUnst => x.sort_unstable_by_col(idx, cmp),
                SortVar::ByColKey => x.sort_by_col_key(idx, keyf),
                SortVar::ByColKeyUnst => x.sort_unstable_by_col_key(idx, keyf),
            }
        }
        Op::Translate(mc, mr) => x.translate_with_wrap((mc, mr)),
        Op::FlipRows => x.flip_rows(),
        Op::FlipCols => x.flip_cols(),
    }
    obs
}

/// Expected observation, in window coordinates: (col,row,len).
pub type ExpObs = Vec<(usize, usize, usize)>;

/// Effective comparison of a sort variant on keys.
pub fn sort_cmp(var: SortVar, desc: bool) -> impl Fn(u32, u32) -> Ordering {
    move |a: u32, b: u32| {
        if var.is_ord() || !desc {
            a.cmp(&b)
        } else {
            b.cmp(&a)
        }
    }
}

/// Apply `op` to the model of the receiver's window. Err(()) = must be rejected.
/// For unstable sorts the model applies the stable sort (the checker then only compares what the
/// property promises for unstable variants).
pub fn apply_model(g: &mut Grid, op: &Op, vals: &mut VecDeque<Mc>, keep_uid: bool) -> MRes<ExpObs> {
    let mut exp: ExpObs = vec![];
    let (cols, rows) = g.size();
    let val = |m: Mc| if keep_uid { m } else { Mc { uid: FRESH, key: m.key } };
    match *op {
        Op::SetCoord(c, r) => {
            if c >= cols || r >= rows {
                return Err(());
            }
            exp.push((c, r, 1));
            g.cells[r][c] = take(vals);
        }
        Op::SetRowCol(c, r) => {
            if c >= cols || r >= rows {
                return Err(());
            }
            exp.push((0, r, cols));
            g.cells[r][c] = take(vals);
        }
        Op::Fill => {
            let v = take(vals);
            g.fill(v, keep_uid);
        }
        Op::Swap(a, b) => g.swap(a, b)?,
        Op::SwapRows(a, b) => g.swap_rows(a, b)?,
        Op::SwapCols(a, b) => g.swap_cols(a, b)?,
        Op::RowPair(a, b) => {
            if a == b || a >= rows || b >= rows {
                return Err(());
            }
            exp.push((0, a, cols));
            exp.push((0, b, cols));
            g.swap_rows(a, b)?;
        }
        Op::RowsMut(w) => {
            for r in walk_order(w, rows) {
                exp.push((0, r, cols));
                for c in 0..cols {
                    g.cells[r][c] = take(vals);
                }
            }
        }
        Op::ColMut(c, w) => {
            if c >= cols {
                return Err(());
            }
            for r in walk_order(w, rows) {
                exp.push((c, r, 1));
                g.cells[r][c] = take(vals);
            }
        }
        Op::CellsMut(w) => {
            for i in walk_order(w, cols * rows) {
                exp.push((i % cols, i / cols, 1));
                g.cells[i / cols][i % cols] = take(vals);
            }
        }
        Op::CopyFromSlice(d) | Op::CloneFromSlice(d) => {
            let n = (cols * rows) as isize + d;
            let n = if n < 0 { 0 } else { n as usize };
            let src: Vec<Mc> = (0..n).map(|_| take(vals)).collect();
            let keep = keep_uid || matches!(op, Op::CopyFromSlice(_));
            g.copy_from_flat(&src, keep)?;
        }
        Op::CopyFromToodee(k, rel) | Op::CloneFromToodee(k, rel) => {
            let (sc, sr) = src_dims(rel, cols, rows);
            let ((bc, br), win) = src_layout(k, sc, sr);
            let flat: Vec<Mc> = (0..bc * br).map(|_| take(vals)).collect();
            let big = if bc == 0 { Grid::empty() } else { Grid::from_flat(bc, br, &flat) };
            let src = big.window(win.0, win.1).expect("harness: source window");
            let keep = keep_uid || matches!(op, Op::CopyFromToodee(..));
            g.copy_from_grid(&src, keep)?;
        }
        Op::CopyWithin(a, b, d) => g.copy_within(a, b, d)?,
        Op::Sort(var, idx, desc) => {
            let cmp = sort_cmp(var, desc);
            if var.by_row() {
                g.sort_cols_by_row(idx, &cmp)?;
            } else {
                g.sort_rows_by_col(idx, &cmp)?;
            }
        }
        Op::Translate(mc, mr) => g.translate(mc, mr)?,
        Op::FlipRows => g.flip_rows(),
        Op::FlipCols => g.flip_cols(),
    }
    let _ = val;
    Ok(exp)
}

// ------------------------------------------------------------------------------------------------

#[derive(Clone, Copy, PartialEq, Eq, Debug)]
pub enum Outcome {
    Accepted,
    Rejected,
    Failed,
}

pub struct OpCase<'a> {
    pub pshape: (usize, usize),
    pub win: Win,
    pub recv: Recv,
    pub op: Op,
    pub keys: &'a dyn Fn(usize, usize) -> u32,
    /// also run the op on an owned array holding the same cells and compare (Copy element types only)
    pub twin: bool,
    /// spare capacity to give an owned parent before the operation (0 = exact capacity)
    pub spare: usize,
}

struct Runner<'a, T> {
    op: &'a Op,
    vals: &'a mut VecDeque<T>,
    res: Option<Result<Obs, String>>,
    size: (usize, usize),
}
impl<'a, T: Elem + Clone + Ord> RecvFn<T> for Runner<'a, T> {
    fn call<X: TooDeeOpsMut<T> + CopyOps<T>>(&mut self, x: &mut X) {
        self.size = x.size();
        let op = self.op;
        let vals = &mut *self.vals;
        self.res = Some(catches(|| apply_real(x, op, vals)));
    }
}

fn n_vals(op: &Op, c: usize, r: usize) -> usize {
    match op {
        Op::SetCoord(..) | Op::SetRowCol(..) | Op::Fill => 1,
        Op::RowsMut(_) | Op::CellsMut(_) | Op::ColMut(..) => c * r + 1,
        Op::CopyFromSlice(_) | Op::CloneFromSlice(_) => c * r + 2,
        Op::CopyFromToodee(..) | Op::CloneFromToodee(..) => (c * r.max(1) + 3).max(c + 3) * (r + 3),
        _ => 0,
    }
}

/// Run one operation on one receiver of a freshly built parent and judge it.
pub fn run_op<T: Elem + Clone + Ord>(ctx: &mut Ctx, oc: &OpCase<'_>) -> Outcome {
    ledger_reset();
    kv_reset();
    fault_reset();
    let opn = oc.op.kind();
    let (pc, pr) = oc.pshape;
    let (mut parent, pg) = build::<T>(pc, pr, oc.keys);
    if oc.spare > 0 {
        // capacity state as left behind by earlier operations: paths that stage data in spare capacity
        parent.reserve_exact(oc.spare);
    }
    let wg0 = pg.window(oc.win.0, oc.win.1).expect("harness: window must be valid");
    let (wc, wr) = wg0.size();
    let nv = n_vals(&oc.op, wc.max(1), wr.max(1));
    let vals: Vec<T> = (0..nv).map(|i| T::fresh(50 + (i % 3) as u32)).collect();
    let vals_mc: VecDeque<Mc> = vals.iter().map(mc).collect();
    let twin_vals: Option<Vec<T>> = if oc.twin && T::CLONE_KEEPS_UID && !T::IS_ZST { Some(vals.clone()) } else { None };
    let mut vals: VecDeque<T> = vals.into();
    // model
    let mut wg = wg0.clone();
    let verdict = apply_model(&mut wg, &oc.op, &mut vals_mc.clone(), T::CLONE_KEEPS_UID);
    // real
    let base = parent.data().as_ptr() as usize;
    let sz = std::mem::size_of::<T>();
    let mut runner = Runner { op: &oc.op, vals: &mut vals, res: None, size: (0, 0) };
    with_recv(oc.recv, &mut parent, oc.win, &mut runner);
    let res = runner.res.take().expect("harness: receiver not called");
    if let Err(m) = &res {
        if m.starts_with("harness:") {
            panic!("{}", m);
        }
    }
    let rsize = runner.size;
    ctx.count("calls", 1);
    let what = || format!("{:?} on {:?} window {:?} of {}x{} ({})", oc.op, oc.recv, oc.win, pc, pr, T::NAME);
    if rsize != (wc, wr) {
        ctx.violation(opn, "receiver-size", format!("{}: receiver size {:?} expected ({},{})", what(), rsize, wc, wr));
        return Outcome::Failed;
    }
    // the parent must never change shape
    if parent.size() != pg.size() || parent.data().len() != pg.len() || parent.data().as_ptr() as usize != base {
        ctx.violation(opn, "parent-shape-changed", what());
        return Outcome::Failed;
    }
    let mut expected = pg.clone();
    let outcome = match (&verdict, &res) {
        (Ok(_), Ok(_)) => {
            expected.write_window(oc.win.0, &wg);
            Outcome::Accepted
        }
        (Err(()), Err(_)) => Outcome::Rejected,
        (Ok(_), Err(msg)) => {
            ctx.violation(opn, "valid-call-panicked", format!("{}: {}", what(), msg));
            Outcome::Failed
        }
        (Err(()), Ok(_)) => {
            ctx.violation(opn, "invalid-call-accepted", what());
            Outcome::Failed
        }
    };
    let mut ok = outcome != Outcome::Failed;
    // ---- compare the whole parent
    let data = parent.data();
    let unstable_sort = matches!(oc.op, Op::Sort(v, _, _) if !v.stable());
    let in_win = |c: usize, r: usize| c >= (oc.win.0).0 && c < (oc.win.1).0 && r >= (oc.win.0).1 && r < (oc.win.1).1;
    for r in 0..pr {
        for c in 0..pc {
            let d = &data[r * pc + c];
            let inside = in_win(c, r) && wc > 0;
            if !inside {
                // outside the window: never changes, whatever the outcome
                let m = pg.cells[r][c];
                if !T::IS_ZST && mc(d) != m {
                    ctx.violation(opn, "outside-window-changed", format!("{}: parent cell ({},{}) = {:?} was {:?}", what(), c, r, mc(d), m));
                    ok = false;
                }
            } else if outcome == Outcome::Accepted && !unstable_sort {
                let m = &mut expected.cells[r][c];
                if !cell_matches(m, d) {
                    ctx.violation(opn, "model:cell", format!("{}: parent cell ({},{}) = {:?} expected {:?}", what(), c, r, mc(d), m));
                    ok = false;
                }
            }
            if !ok {
                break;
            }
        }
        if !ok {
            break;
        }
    }
    ctx.count("cells_compared", (pc * pr) as u64);
    if ok && outcome == Outcome::Accepted && unstable_sort {
        if let Op::Sort(var, idx, desc) = oc.op {
            ok &= check_unstable_sort::<T>(ctx, opn, &what(), &parent, oc.win, &wg0, var, idx, desc);
        }
    }
    // ---- addresses of what the operation yielded
    if ok && outcome == Outcome::Accepted && sz != 0 {
        if let (Ok(exp), Ok(obs)) = (&verdict, &res) {
            let stride = pc;
            let want: Obs = exp.iter().map(|&(c, r, l)| (base + (((oc.win.0).1 + r) * stride + (oc.win.0).0 + c) * sz, l)).collect();
            if &want != obs {
                ctx.violation(opn, "yielded-addresses", format!("{}: yielded {:x?} expected {:x?}", what(), &obs[..obs.len().min(6)], &want[..want.len().min(6)]));
                ok = false;
            }
            ctx.count("addresses_compared", want.len() as u64);
        }
    }
    // ---- ownership
    ok &= check_tokens(ctx, opn, &parent, &HashSet::new());
    ok &= check_double_drops(ctx, opn);
    // ---- owned-twin differential
    // (unstable sorts are exempt: which of several tied lines ends up where is unspecified, so an owned
    // array and a view may legitimately differ there; the permutation check above already judged them)
    if ok && outcome == Outcome::Accepted && !unstable_sort {
        if let Some(tv) = twin_vals {
            let cells: Vec<T> = parent_window_cells_before::<T>(&wg0);
            let mut twin = TooDee::from_vec(wc, wr, cells);
            let mut tvals: VecDeque<T> = tv.into();
            let tres = catches(|| apply_real(&mut twin, &oc.op, &mut tvals));
            match tres {
                Err(msg) => {
                    ctx.violation(opn, "twin:owned-panicked", format!("{}: the same call on an owned array with the same cells panicked: {}", what(), msg));
                    ok = false;
                }
                Ok(_) => {
                    let tw = read_ops::<T, _>(&twin);
                    let after = read_window::<T>(&parent, oc.win);
                    if tw.as_ref() != Some(&after) {
                        ctx.violation(opn, "twin:differs", format!("{}: view result {:?} owned result {:?}", what(), after.uids(), tw.map(|g| g.uids())));
                        ok = false;
                    }
                    ctx.count("twin_comparisons", 1);
                }
            }
        }
    }
    drop(vals);
    drop(parent);
    ok &= check_double_drops(ctx, opn);
    if outcome == Outcome::Accepted && ok {
        check_no_leak(ctx, opn);
    }
    ledger_counts(ctx);
    if ok {
        ctx.detail(|| format!("{} -> {:?}", what(), outcome));
        match outcome {
            Outcome::Accepted => ctx.count("accepted", 1),
            Outcome::Rejected => ctx.count("rejected", 1),
            _ => {}
        }
        outcome
    } else {
        Outcome::Failed
    }
}

/// Rebuild the window's original cells as real elements (only meaningful for Copy element types,
/// where uid/key fully determine the value).
fn parent_window_cells_before<T: Elem>(wg0: &Grid) -> Vec<T> {
    wg0.flat().iter().map(|m| T::rebuild(*m)).collect()
}

pub fn read_window<T: Elem>(parent: &TooDee<T>, win: Win) -> Grid {
    let v = parent.data();
    let pc = parent.num_cols();
    let (s, e) = win;
    let w = e.0 - s.0;
    let h = e.1 - s.1;
    if w == 0 || h == 0 {
        return Grid::empty();
    }
    let cells = (0..h).map(|r| (0..w).map(|c| mc(&v[(s.1 + r) * pc + s.0 + c])).collect()).collect();
    Grid { cols: w, rows: h, cells }
}

/// Unstable variants promise: key line ordered; every result line is one of the original lines
/// intact; each original line exactly once.
fn check_unstable_sort<T: Elem>(ctx: &mut Ctx, opn: &str, what: &str, parent: &TooDee<T>, win: Win, before: &Grid, var: SortVar, idx: usize, desc: bool) -> bool {
    let after = read_window::<T>(parent, win);
    if after.size() != before.size() {
        ctx.violation(opn, "sort:size", what.to_string());
        return false;
    }
    let cmp = sort_cmp(var, desc);
    let lines = |g: &Grid| -> Vec<Vec<u64>> {
        if var.by_row() {
            (0..g.cols).map(|c| g.col(c).iter().map(|m| m.uid).collect()).collect()
        } else {
            g.cells.iter().map(|r| r.iter().map(|m| m.uid).collect()).collect()
        }
    };
    let keyline: Vec<u32> = if var.by_row() { after.cells[idx].iter().map(|m| m.key).collect() } else { after.col(idx).iter().map(|m| m.key).collect() };
    for w in keyline.windows(2) {
        if cmp(w[0], w[1]) == Ordering::Greater {
            ctx.violation(opn, "sort:not-ordered", format!("{}: key line {:?}", what, keyline));
            return false;
        }
    }
    let mut a = lines(&after);
    let mut b = lines(before);
    a.sort();
    b.sort();
    if a != b {
        ctx.violation(opn, "sort:lines-not-permuted", format!("{}: lines after {:?} before {:?}", what, a, b));
        return false;
    }
    true
}
