//! Receivers: the ways a `TooDeeOpsMut` implementor over a given window of a parent can be obtained.
use crate::thin::Thin;
use toodee::*;

pub type Win = ((usize, usize), (usize, usize));

#[derive(Clone, Copy, PartialEq, Eq, Debug, Hash)]
pub enum Recv {
    /// the parent itself (window must be the whole parent)
    Owned,
    /// parent.view_mut(window)
    View,
    /// parent.view_mut(outer).view_mut(inner) with outer = window grown by one cell where possible
    Nested,
    /// three levels: parent.view_mut(o2).view_mut(o1).view_mut(inner)
    Nested3,
    /// Thin(parent): trait defaults only
    ThinOwned,
    /// Thin(parent.view_mut(window))
    ThinView,
    /// TooDeeViewMut::new(cols, rows, parent.data_mut()) (window must be the whole parent)
    Direct,
    /// TooDeeViewMut::new over a slice LONGER than needed: the window is the top `rows` rows of a
    /// taller parent of the same width; everything below must stay untouched
    DirectLong,
}

pub trait RecvFn<T> {
    fn call<X: TooDeeOpsMut<T> + CopyOps<T>>(&mut self, x: &mut X);
}

/// Outer window for nested receivers. mode 0: the window grown by one cell on every side (where the
/// parent allows); 1: grown vertically only (the inner window spans the outer's full width while the
/// outer is narrower than the parent); 2: grown horizontally only.
pub fn outer_of_mode(win: Win, cols: usize, rows: usize, mode: usize) -> (Win, Win) {
    let (s, e) = win;
    let (gx, gy) = match mode % 3 {
        0 => (1, 1),
        1 => (0, 1),
        _ => (1, 0),
    };
    let os = (s.0.saturating_sub(gx), s.1.saturating_sub(gy));
    let oe = ((e.0 + gx).min(cols), (e.1 + gy).min(rows));
    let inner = ((s.0 - os.0, s.1 - os.1), (e.0 - os.0, e.1 - os.1));
    ((os, oe), inner)
}

/// The outer-window flavour is varied deterministically with the window position.
pub fn outer_of(win: Win, cols: usize, rows: usize) -> (Win, Win) {
    let (s, e) = win;
    outer_of_mode(win, cols, rows, s.0 + 2 * s.1 + e.0 + e.1)
}

pub fn with_recv<T, F: RecvFn<T>>(recv: Recv, parent: &mut TooDee<T>, win: Win, f: &mut F) {
    match recv {
        Recv::Owned => f.call(parent),
        Recv::View => {
            let mut v = parent.view_mut(win.0, win.1);
            f.call(&mut v)
        }
        Recv::Nested => {
            let (outer, inner) = outer_of(win, parent.num_cols(), parent.num_rows());
            let mut o = parent.view_mut(outer.0, outer.1);
            let mut v = o.view_mut(inner.0, inner.1);
            f.call(&mut v)
        }
        Recv::Nested3 => {
            let (c, rws) = (parent.num_cols(), parent.num_rows());
            let (o1, inner) = outer_of_mode(win, c, rws, 1 + (win.0).0 + (win.1).1);
            // o1 is expressed in parent coordinates; wrap it once more
            let (o2, o1_in_o2) = outer_of_mode(o1, c, rws, (win.0).1 + (win.1).0);
            let mut a = parent.view_mut(o2.0, o2.1);
            let mut b = a.view_mut(o1_in_o2.0, o1_in_o2.1);
            let mut v = b.view_mut(inner.0, inner.1);
            f.call(&mut v)
        }
        Recv::ThinOwned => {
            let p = std::mem::take(parent);
            let mut t = Thin::new(p);
            f.call(&mut t);
            *parent = t.0;
        }
        Recv::ThinView => {
            let v = parent.view_mut(win.0, win.1);
            let mut t = Thin::new(v);
            f.call(&mut t)
        }
        Recv::Direct => {
            let (c, r) = parent.size();
            let mut v = TooDeeViewMut::new(c, r, parent.data_mut());
            f.call(&mut v)
        }
        Recv::DirectLong => {
            let c = parent.num_cols();
            let r = (win.1).1;
            assert!(win.0 == (0, 0) && (win.1).0 == c, "harness: DirectLong needs a full-width window at the top");
            let mut v = TooDeeViewMut::new(c, r, parent.data_mut());
            f.call(&mut v)
        }
    }
}

pub fn full_win(cols: usize, rows: usize) -> Win {
    ((0, 0), (cols, rows))
}
