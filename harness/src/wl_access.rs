//! C02 (checked access reaches exactly the addressed cell or panics) and
//! C03 (a view is exactly the requested window of its parent).
use crate::ctx::*;
use crate::model::{shapes, windows};
use crate::recv::Win;
use toodee::*;

fn nsel(ctx: &Ctx, miri_q: usize, miri_t: usize, vg: usize, quick: usize, thorough: usize) -> usize {
    match (ctx.scale, ctx.tier) {
        (Scale::Miri, Tier::Quick) => miri_q,
        (Scale::Miri, Tier::Thorough) => miri_t,
        (Scale::Vg, _) => vg,
        (Scale::Native, Tier::Quick) => quick,
        (Scale::Native, Tier::Thorough) => thorough,
    }
}

/// Absolute placement of a receiver inside the root buffer.
#[derive(Clone, Copy, Debug)]
pub struct Pos {
    pub base: usize,
    pub stride: usize,
    pub start: (usize, usize),
    pub size: (usize, usize),
}
impl Pos {
    fn cell(&self, c: usize, r: usize) -> usize {
        self.base + ((self.start.1 + r) * self.stride + self.start.0 + c) * 4
    }
    fn idx(&self, c: usize, r: usize) -> usize {
        (self.start.1 + r) * self.stride + self.start.0 + c
    }
    fn sub(&self, s: (usize, usize), e: (usize, usize)) -> Option<Pos> {
        if s.0 <= e.0 && s.1 <= e.1 && e.0 <= self.size.0 && e.1 <= self.size.1 {
            let (w, h) = (e.0 - s.0, e.1 - s.1);
            if w == 0 || h == 0 {
                Some(Pos { base: self.base, stride: self.stride, start: (self.start.0 + s.0, self.start.1 + s.1), size: (0, 0) })
            } else {
                Some(Pos { base: self.base, stride: self.stride, start: (self.start.0 + s.0, self.start.1 + s.1), size: (w, h) })
            }
        } else {
            None
        }
    }
}

fn addr(r: &u32) -> usize {
    r as *const u32 as usize
}

// ================================================================================================
// C02

fn coord_values(dim: usize, stride: usize, len: usize, for_row: bool, small: bool) -> Vec<usize> {
    let mut v: Vec<usize> = (0..=dim + if small { 1 } else { 2 }).collect();
    if small {
        v.extend([usize::MAX, 1usize << 63]);
    } else {
        v.extend([usize::MAX, usize::MAX - 1, usize::MAX / 2, usize::MAX / 2 + 1, 1usize << 32, 1usize << 63]);
    }
    let len = if small { len.min(2) } else { len };
    if for_row && stride > 0 {
        // rows r with r*stride wrapping to an in-range offset p
        for p in 0..len.min(8) {
            let t = (1u128 << 64) + p as u128;
            if t % stride as u128 == 0 {
                let r = (t / stride as u128) as u64 as usize;
                v.push(r);
            }
        }
        for j in 1..(if small { 2 } else { 4usize }) {
            v.push((usize::MAX / stride).wrapping_mul(j).wrapping_add(1));
        }
    } else if stride > 0 {
        // columns c with r*stride + c wrapping to an in-range offset, for r = 1
        for p in 0..len.min(4) {
            v.push(p.wrapping_sub(stride));
        }
    }
    v.sort_unstable();
    v.dedup();
    v
}

/// Check all accessor forms of a shared receiver at (c, r).
fn c02_shared<X: TooDeeOps<u32>>(ctx: &mut Ctx, kind: &str, x: &X, pos: &Pos, c: usize, r: usize) {
    let (wc, wr) = pos.size;
    let inr = c < wc && r < wr;
    let want = if inr { Some(pos.cell(c, r)) } else { None };
    let mut forms: Vec<(&str, Option<usize>)> = vec![];
    forms.push(("x[(c,r)]", catches(|| addr(&x[(c, r)])).ok()));
    forms.push(("x[r][c]", catches(|| addr(&x[r][c])).ok()));
    forms.push(("x.col(c)[r]", catches(|| addr(&x.col(c)[r])).ok()));
    if inr {
        forms.push(("x.col(c).nth(r)", catches(|| x.col(c).nth(r).map(addr)).ok().flatten()));
        forms.push(("x.rows().nth(r)[c]", catches(|| x.rows().nth(r).map(|row| addr(&row[c]))).ok().flatten()));
        forms.push(("get_unchecked", catches(|| unsafe { addr(x.get_unchecked((c, r))) }).ok()));
        forms.push(("get_unchecked_row", catches(|| unsafe { addr(&x.get_unchecked_row(r)[c]) }).ok()));
    }
    // row slice form: x[r] must be exactly the row or panic
    let rowres = catches(|| {
        let s = &x[r];
        (s.as_ptr() as usize, s.len())
    })
    .ok();
    let want_row = if r < wr { Some((pos.cell(0, r), wc)) } else { None };
    if rowres != want_row {
        ctx.violation(kind, "access:row-slice", format!("x[{}] -> {:x?} expected {:x?} (size {:?})", r, rowres, want_row, pos.size));
    }
    // col(c) itself must panic when c is out of range
    let colres = catches(|| x.col(c).len()).ok();
    let want_col = if c < wc { Some(wr) } else { None };
    if colres != want_col {
        ctx.violation(kind, "access:col", format!("col({}).len() -> {:?} expected {:?} (size {:?})", c, colres, want_col, pos.size));
    }
    for (f, got) in forms {
        ctx.count("accessor_calls", 1);
        if got != want {
            let sym = if want.is_none() { "access:out-of-range-accepted" } else { "access:wrong-cell" };
            ctx.violation(kind, sym, format!("{} with (c,r)=({},{}) on size {:?} stride {}: got {:x?} expected {:x?}", f, c, r, pos.size, pos.stride, got, want));
        }
    }
}

fn c02_mut<X: TooDeeOpsMut<u32>>(ctx: &mut Ctx, kind: &str, x: &mut X, pos: &Pos, c: usize, r: usize) {
    let (wc, wr) = pos.size;
    let inr = c < wc && r < wr;
    let want = if inr { Some(pos.cell(c, r)) } else { None };
    let mut forms: Vec<(&str, Option<usize>)> = vec![];
    forms.push(("x[(c,r)] (mut)", catches(|| addr(&mut x[(c, r)])).ok()));
    forms.push(("x[r][c] (mut)", catches(|| addr(&mut x[r][c])).ok()));
    forms.push(("x.col_mut(c)[r]", catches(|| addr(&x.col_mut(c)[r])).ok()));
    forms.push(("x.col_mut(c)[r] (mut)", catches(|| addr(&mut x.col_mut(c)[r])).ok()));
    if inr {
        forms.push(("x.col_mut(c).nth(r)", catches(|| x.col_mut(c).nth(r).map(|m| addr(m))).ok().flatten()));
        forms.push(("x.rows_mut().nth(r)[c]", catches(|| x.rows_mut().nth(r).map(|row| addr(&row[c]))).ok().flatten()));
        forms.push(("get_unchecked_mut", catches(|| unsafe { addr(x.get_unchecked_mut((c, r))) }).ok()));
        forms.push(("get_unchecked_row_mut", catches(|| unsafe { addr(&x.get_unchecked_row_mut(r)[c]) }).ok()));
    }
    let colres = catches(|| x.col_mut(c).len()).ok();
    let want_col = if c < wc { Some(wr) } else { None };
    if colres != want_col {
        ctx.violation(kind, "access:col_mut", format!("col_mut({}).len() -> {:?} expected {:?} (size {:?})", c, colres, want_col, pos.size));
    }
    for (f, got) in forms {
        ctx.count("accessor_calls", 1);
        if got != want {
            let sym = if want.is_none() { "access:out-of-range-accepted" } else { "access:wrong-cell" };
            ctx.violation(kind, sym, format!("{} with (c,r)=({},{}) on size {:?} stride {}: got {:x?} expected {:x?}", f, c, r, pos.size, pos.stride, got, want));
        }
    }
}

fn c02_receiver(ctx: &mut Ctx, pshape: (usize, usize), win: Win, rk: u8, om: usize) {
    let (pc, pr) = pshape;
    let on_slice = rk == 3 || rk == 4;
    let extra = if on_slice { 3 } else { 0 };
    let mut buf: Vec<u32> = (0..(pc * pr + extra) as u32).collect();
    let orig = buf.clone();
    let mut parent = if !on_slice { TooDee::from_vec(pc, pr, std::mem::take(&mut buf)) } else { TooDee::default() };
    let base = if !on_slice { parent.data().as_ptr() as usize } else { buf.as_ptr() as usize };
    let root = Pos { base, stride: pc, start: (0, 0), size: if pc == 0 { (0, 0) } else { (pc, pr) } };
    let pos = root.sub(win.0, win.1).expect("harness: valid window");
    let (wc, wr) = pos.size;
    let len_in = if wr == 0 { 0 } else { (wr - 1) * pc + wc };
    let small = ctx.scale == Scale::Miri;
    let cs = coord_values(wc, pc, len_in, false, small);
    let rs = coord_values(wr, pc, len_in, true, small);
    let kinds = ["TooDee", "TooDeeView", "TooDeeViewMut", "TooDeeView::new", "TooDeeViewMut::new", "TooDeeViewMut::view", "TooDeeView::view", "TooDeeViewMut::view_mut", "TooDeeView::from(view_mut)"];
    let (outer, inner) = crate::recv::outer_of_mode(win, pc, pr, om);
    let kind = kinds[rk as usize];
    for &c in &cs {
        for &r in &rs {
            match rk {
                0 => {
                    c02_shared(ctx, kind, &parent, &pos, c, r);
                    c02_mut(ctx, kind, &mut parent, &pos, c, r);
                    // owned: the cell is data()[r*num_cols + c]
                    if c < wc && r < wr && addr(&parent.data()[r * wc + c]) != pos.cell(c, r) {
                        ctx.violation(kind, "access:data-layout", format!("data()[{}] is not cell ({},{})", r * wc + c, c, r));
                    }
                }
                1 => {
                    let v = parent.view(win.0, win.1);
                    c02_shared(ctx, kind, &v, &pos, c, r);
                }
                2 => {
                    let mut v = parent.view_mut(win.0, win.1);
                    c02_shared(ctx, kind, &v, &pos, c, r);
                    c02_mut(ctx, kind, &mut v, &pos, c, r);
                }
                3 => {
                    let v = TooDeeView::new(pc, pr, &buf);
                    c02_shared(ctx, kind, &v, &pos, c, r);
                }
                5 => {
                    let o = parent.view_mut(outer.0, outer.1);
                    let v = o.view(inner.0, inner.1);
                    c02_shared(ctx, kind, &v, &pos, c, r);
                }
                6 => {
                    let o = parent.view(outer.0, outer.1);
                    let v = o.view(inner.0, inner.1);
                    c02_shared(ctx, kind, &v, &pos, c, r);
                }
                8 => {
                    let v: TooDeeView<'_, u32> = parent.view_mut(win.0, win.1).into();
                    c02_shared(ctx, kind, &v, &pos, c, r);
                }
                7 => {
                    let mut o = parent.view_mut(outer.0, outer.1);
                    let mut v = o.view_mut(inner.0, inner.1);
                    c02_shared(ctx, kind, &v, &pos, c, r);
                    c02_mut(ctx, kind, &mut v, &pos, c, r);
                }
                _ => {
                    let mut v = TooDeeViewMut::new(pc, pr, &mut buf);
                    c02_shared(ctx, kind, &v, &pos, c, r);
                    c02_mut(ctx, kind, &mut v, &pos, c, r);
                }
            }
            let class = |v: usize, d: usize| if v < d { 0 } else if v <= d + 2 { 1 } else { 2 };
            ctx.seen("coord_classes", (rk, class(c, wc), class(r, wr)));
            ctx.count("calls", 1);
        }
    }
    // nothing was written
    let now: &[u32] = if !on_slice { parent.data() } else { &buf };
    if now != &orig[..] {
        ctx.violation(kind, "access:cells-written", format!("buffer changed: {:?} -> {:?}", orig, now));
    }
    if wc > 0 {
        ctx.nontrivial(("C02", rk, pshape, win, om));
    }
}

pub fn run_c02(ctx: &mut Ctx) {
    let n_owned = nsel(ctx, 2, 3, 3, 6, 10);
    let n_par = nsel(ctx, 2, 3, 3, 4, 6);
    for shape in shapes(n_owned) {
        for rk in [0u8, 3, 4] {
            if ctx.case(|| format!("C02 {} shape={}x{}", ["TooDee", "", "", "TooDeeView::new", "TooDeeViewMut::new"][rk as usize], shape.0, shape.1)) {
                c02_receiver(ctx, shape, ((0, 0), shape), rk, 0);
            }
            if ctx.done() {
                return;
            }
        }
    }
    for shape in shapes(n_par) {
        for win in windows(shape.0, shape.1) {
            for rk in [1u8, 2, 5, 6, 7, 8] {
                // nested receivers: non-empty windows only (their outer window is the window grown by one cell)
                if (5..=7).contains(&rk) && ((win.1).0 == (win.0).0 || (win.1).1 == (win.0).1) {
                    continue;
                }
                for om in 0..(if (5..=7).contains(&rk) { 3 } else { 1 }) {
                    if ctx.case(|| format!("C02 {} parent={}x{} win={:?} outer-mode={}", ["", "TooDeeView", "TooDeeViewMut", "", "", "TooDeeViewMut::view", "TooDeeView::view", "TooDeeViewMut::view_mut", "TooDeeView::from(view_mut)"][rk as usize], shape.0, shape.1, win, om)) {
                        c02_receiver(ctx, shape, win, rk, om);
                    }
                    if ctx.done() {
                        return;
                    }
                }
            }
        }
    }
    giant_misc(ctx, "C02");
}

// ================================================================================================
// C03

/// Check that `v` is exactly the window at `pos`: size, address of every cell through three routes.
fn check_view<V: TooDeeOps<u32>>(ctx: &mut Ctx, kind: &str, v: &V, pos: &Pos, what: &dyn Fn() -> String) -> bool {
    if v.size() != pos.size || v.num_cols() != pos.size.0 || v.num_rows() != pos.size.1 {
        ctx.violation(kind, "view:size", format!("{}: size {:?} expected {:?}", what(), v.size(), pos.size));
        return false;
    }
    if v.is_empty() != (pos.size.0 == 0) {
        ctx.violation(kind, "view:is_empty", what());
        return false;
    }
    let (wc, wr) = pos.size;
    let mut nrows = 0;
    for (r, row) in v.rows().enumerate() {
        nrows += 1;
        if r >= wr || (row.as_ptr() as usize, row.len()) != (pos.cell(0, r), wc) {
            ctx.violation(kind, "view:rows", format!("{}: rows()[{}] = ({:#x},{}) expected ({:#x},{})", what(), r, row.as_ptr() as usize, row.len(), if r < wr { pos.cell(0, r) } else { 0 }, wc));
            return false;
        }
    }
    if nrows != wr {
        ctx.violation(kind, "view:rows", format!("{}: rows() yielded {} rows expected {}", what(), nrows, wr));
        return false;
    }
    for r in 0..wr {
        for c in 0..wc {
            let a = addr(&v[(c, r)]);
            if a != pos.cell(c, r) {
                ctx.violation(kind, "view:cell-address", format!("{}: cell ({},{}) at {:#x} expected {:#x}", what(), c, r, a, pos.cell(c, r)));
                return false;
            }
        }
    }
    for c in 0..wc {
        let col: Vec<usize> = v.col(c).map(addr).collect();
        let want: Vec<usize> = (0..wr).map(|r| pos.cell(c, r)).collect();
        if col != want {
            ctx.violation(kind, "view:col", format!("{}: col({}) addresses {:x?} expected {:x?}", what(), c, col, want));
            return false;
        }
    }
    if v.cells().len() != wc * wr {
        ctx.violation(kind, "view:cells-len", what());
        return false;
    }
    ctx.count("addresses_compared", (wc * wr * 3) as u64);
    true
}

struct Step {
    s: (usize, usize),
    e: (usize, usize),
    /// true = view_mut, false = view
    m: bool,
}

struct Leaf<'a> {
    /// expected writes into the root buffer (index, value)
    writes: &'a mut Vec<(usize, u32)>,
    /// single-cell write mode: Some(k) writes only the k-th cell of the leaf
    single: Option<usize>,
    verdict: &'a mut Option<bool>,
    label: &'a str,
}

fn judge_final(ctx: &mut Ctx, kind: &str, valid: bool, panicked: Option<&String>, what: &dyn Fn() -> String) -> bool {
    match (valid, panicked) {
        (true, None) => true,
        (false, Some(_)) => {
            ctx.count("rejected", 1);
            false
        }
        (true, Some(m)) => {
            ctx.violation(kind, "valid-call-panicked", format!("{}: {}", what(), m));
            false
        }
        (false, None) => {
            ctx.violation(kind, "invalid-call-accepted", what());
            false
        }
    }
}

fn descend_v<X: TooDeeOps<u32>>(ctx: &mut Ctx, x: &X, pos: Pos, path: &[Step], leaf: &mut Leaf<'_>) {
    let st = &path[0];
    let np = pos.sub(st.s, st.e);
    let what = || format!("{} view({:?},{:?}) on receiver of size {:?} at {:?}", leaf.label, st.s, st.e, pos.size, pos.start);
    if path.len() == 1 {
        let r = catches(|| x.view(st.s, st.e));
        ctx.count("calls", 1);
        match r {
            Ok(v) => {
                if judge_final(ctx, "view", np.is_some(), None, &what) {
                    let ok = check_view(ctx, "view", &v, &np.unwrap(), &what);
                    *leaf.verdict = Some(ok);
                }
            }
            Err(m) => {
                judge_final(ctx, "view", np.is_some(), Some(&m), &what);
            }
        }
    } else {
        let v = x.view(st.s, st.e);
        descend_v(ctx, &v, np.expect("harness: prefix must be valid"), &path[1..], leaf);
    }
}

fn descend_m<X: TooDeeOpsMut<u32>>(ctx: &mut Ctx, x: &mut X, pos: Pos, path: &[Step], leaf: &mut Leaf<'_>) {
    let st = &path[0];
    let np = pos.sub(st.s, st.e);
    if !st.m {
        return descend_v(ctx, x, pos, path, leaf);
    }
    let what = || format!("{} view_mut({:?},{:?}) on receiver of size {:?} at {:?}", leaf.label, st.s, st.e, pos.size, pos.start);
    if path.len() == 1 {
        let r = catches(|| x.view_mut(st.s, st.e));
        ctx.count("calls", 1);
        match r {
            Ok(mut v) => {
                if judge_final(ctx, "view_mut", np.is_some(), None, &what) {
                    let np = np.unwrap();
                    let ok = check_view(ctx, "view_mut", &v, &np, &what);
                    *leaf.verdict = Some(ok);
                    if ok {
                        // write through
                        let (wc, wr) = np.size;
                        let mut k = 0usize;
                        for r in 0..wr {
                            for c in 0..wc {
                                if leaf.single.map_or(true, |s| s == k) {
                                    let val = 900_000 + (k as u32);
                                    if (c + r) % 2 == 0 {
                                        v[(c, r)] = val;
                                    } else {
                                        v[r][c] = val;
                                    }
                                    leaf.writes.push((np.idx(c, r), val));
                                }
                                k += 1;
                            }
                        }
                    }
                }
            }
            Err(m) => {
                judge_final(ctx, "view_mut", np.is_some(), Some(&m), &what);
            }
        }
    } else {
        let mut v = x.view_mut(st.s, st.e);
        descend_m(ctx, &mut v, np.expect("harness: prefix must be valid"), &path[1..], leaf);
    }
}

/// Run one chain from a root and verify the root buffer afterwards.
fn run_chain(ctx: &mut Ctx, pshape: (usize, usize), root_kind: u8, path: &[Step], single: Option<usize>) -> Option<bool> {
    let (pc, pr) = pshape;
    let extra = if root_kind > 0 { 2 } else { 0 };
    let mut buf: Vec<u32> = (0..(pc * pr + extra) as u32).collect();
    let orig = buf.clone();
    let mut writes: Vec<(usize, u32)> = vec![];
    let mut verdict = None;
    let labels = ["TooDee", "TooDeeView::new", "TooDeeViewMut::new", "TooDeeView::from(view_mut)"];
    let now: Vec<u32>;
    {
        let mut leaf = Leaf { writes: &mut writes, single, verdict: &mut verdict, label: labels[root_kind as usize] };
        match root_kind {
            0 => {
                let mut parent = TooDee::from_vec(pc, pr, std::mem::take(&mut buf));
                let root = Pos { base: parent.data().as_ptr() as usize, stride: pc, start: (0, 0), size: if pc == 0 { (0, 0) } else { (pc, pr) } };
                descend_m(ctx, &mut parent, root, path, &mut leaf);
                now = parent.data().to_vec();
            }
            1 => {
                let root = Pos { base: buf.as_ptr() as usize, stride: pc, start: (0, 0), size: if pc == 0 { (0, 0) } else { (pc, pr) } };
                let v = TooDeeView::new(pc, pr, &buf);
                descend_v(ctx, &v, root, path, &mut leaf);
                now = buf.clone();
            }
            3 => {
                // a read-only view obtained by converting a mutable view over a longer slice
                let root = Pos { base: buf.as_ptr() as usize, stride: pc, start: (0, 0), size: if pc == 0 { (0, 0) } else { (pc, pr) } };
                {
                    let v: TooDeeView<'_, u32> = TooDeeView::from(TooDeeViewMut::new(pc, pr, &mut buf));
                    descend_v(ctx, &v, root, path, &mut leaf);
                }
                now = buf.clone();
            }
            _ => {
                let root = Pos { base: buf.as_ptr() as usize, stride: pc, start: (0, 0), size: if pc == 0 { (0, 0) } else { (pc, pr) } };
                {
                    let mut v = TooDeeViewMut::new(pc, pr, &mut buf);
                    descend_m(ctx, &mut v, root, path, &mut leaf);
                }
                now = buf.clone();
            }
        }
    }
    let mut want = orig.clone();
    for (i, v) in &writes {
        want[*i] = *v;
    }
    if now != want {
        ctx.violation("view_mut", "view:write-through", format!("root {}x{} path {:?}: buffer {:?} expected {:?}", pc, pr, path.iter().map(|s| (s.s, s.e, s.m)).collect::<Vec<_>>(), now, want));
        return Some(false);
    }
    ctx.count("cells_written_through", writes.len() as u64);
    verdict
}

fn all_pairs(dim_c: usize, dim_r: usize) -> Vec<Win> {
    let mut v = vec![];
    for s0 in 0..=dim_c + 1 {
        for s1 in 0..=dim_r + 1 {
            for e0 in 0..=dim_c + 1 {
                for e1 in 0..=dim_r + 1 {
                    v.push(((s0, s1), (e0, e1)));
                }
            }
        }
    }
    v
}

pub fn run_c03(ctx: &mut Ctx) {
    let n1 = nsel(ctx, 2, 3, 3, 5, 8);
    let n2 = nsel(ctx, 1, 2, 2, 3, 4);
    let n3 = nsel(ctx, 0, 1, 2, 3, 3);
    // depth 1: every (start,end) pair, valid and invalid
    for shape in shapes(n1) {
        for (root_kind, m) in [(0u8, false), (0, true), (1, false), (2, false), (2, true), (3, false)] {
            if !ctx.case(|| format!("C03 depth1 root={} mut={} shape={}x{}", root_kind, m, shape.0, shape.1)) {
                if ctx.done() {
                    return;
                }
                continue;
            }
            let (dc, dr) = if shape.0 == 0 { (0, 0) } else { shape };
            for (s, e) in all_pairs(dc, dr) {
                let path = [Step { s, e, m }];
                let v = run_chain(ctx, shape, root_kind, &path, None);
                if v == Some(true) {
                    ctx.nontrivial(("C03", 1, root_kind, m, shape, s, e));
                    // single-cell writes for small windows
                    if m {
                        let cells = (e.0 - s.0) * (e.1 - s.1);
                        if cells > 1 && cells <= 6 {
                            for k in 0..cells {
                                run_chain(ctx, shape, root_kind, &path, Some(k));
                            }
                        }
                    }
                } else if v.is_none() {
                    ctx.nontrivial(("C03rej", 1, root_kind, m, shape, s, e));
                }
            }
            // wrap-provoking / huge coordinates must be rejected
            for big in [usize::MAX, usize::MAX / 2 + 1, 1usize << 32] {
                for (s, e) in [((0, 0), (big, 1)), ((0, 0), (1, big)), ((big, 0), (big, 1)), ((0, big), (1, big)), ((big, big), (big, big))] {
                    run_chain(ctx, shape, root_kind, &[Step { s, e, m }], None);
                }
            }
        }
    }
    // depth 2: every valid non-empty outer window x every inner pair
    let chains2: [(u8, [bool; 2]); 6] = [(0, [false, false]), (0, [true, false]), (0, [true, true]), (1, [false, false]), (2, [true, true]), (3, [false, false])];
    for shape in shapes(n2) {
        if shape.0 == 0 {
            continue;
        }
        for (root_kind, ms) in chains2 {
            for (os, oe) in windows(shape.0, shape.1) {
                let (ow, oh) = (oe.0 - os.0, oe.1 - os.1);
                let (ow, oh) = if ow == 0 || oh == 0 { (0, 0) } else { (ow, oh) };
                if !ctx.case(|| format!("C03 depth2 root={} kinds={:?} shape={}x{} outer={:?}", root_kind, ms, shape.0, shape.1, (os, oe))) {
                    if ctx.done() {
                        return;
                    }
                    continue;
                }
                for (s, e) in all_pairs(ow, oh) {
                    let path = [Step { s: os, e: oe, m: ms[0] }, Step { s, e, m: ms[1] }];
                    let v = run_chain(ctx, shape, root_kind, &path, None);
                    if v == Some(true) {
                        ctx.nontrivial(("C03", 2, root_kind, ms, shape, os, oe, s, e));
                    } else if v.is_none() {
                        ctx.nontrivial(("C03rej", 2, root_kind, ms, shape, os, oe, s, e));
                    }
                }
            }
        }
    }
    // depth 3: all valid two-step prefixes on small parents x every innermost pair
    let chains3: [(u8, [bool; 3]); 4] = [(0, [false, false, false]), (0, [true, false, false]), (0, [true, true, false]), (0, [true, true, true])];
    if n3 > 0 {
        for shape in shapes(n3) {
            if shape.0 == 0 {
                continue;
            }
            for (root_kind, ms) in chains3 {
                for (os, oe) in windows(shape.0, shape.1) {
                    let (ow, oh) = (oe.0 - os.0, oe.1 - os.1);
                    if ow == 0 || oh == 0 {
                        continue;
                    }
                    if !ctx.case(|| format!("C03 depth3 root={} kinds={:?} shape={}x{} outer={:?}", root_kind, ms, shape.0, shape.1, (os, oe))) {
                        if ctx.done() {
                            return;
                        }
                        continue;
                    }
                    for (ms_, me) in windows(ow, oh) {
                        let (mw, mh) = (me.0 - ms_.0, me.1 - ms_.1);
                        let (mw, mh) = if mw == 0 || mh == 0 { (0, 0) } else { (mw, mh) };
                        for (s, e) in all_pairs(mw, mh) {
                            let path = [Step { s: os, e: oe, m: ms[0] }, Step { s: ms_, e: me, m: ms[1] }, Step { s, e, m: ms[2] }];
                            let v = run_chain(ctx, shape, root_kind, &path, None);
                            if v == Some(true) {
                                ctx.nontrivial(("C03", 3, ms, shape, os, oe, ms_, me, s, e));
                            }
                        }
                    }
                }
            }
        }
    }
    giant_misc(ctx, "C03");
}

// ================================================================================================
// Giant arrays of zero-sized elements: real dimensions near usize::MAX, so that products and sums of
// *in-range* coordinates approach the edge of usize. Addresses are meaningless for zero-sized types;
// what is judged is: in-range accesses / valid requests return, out-of-range ones panic, sizes agree.

fn giant_shapes() -> Vec<(usize, usize)> {
    vec![((1usize << 32) + 1, (1usize << 32) - 1), ((1usize << 32) - 1, (1usize << 32) + 1), (3, usize::MAX / 3), (usize::MAX / 2, 2), (usize::MAX, 1), (1, usize::MAX)]
}

fn expect(ctx: &mut Ctx, op: &str, what: String, must_panic: bool, r: Result<bool, String>) -> bool {
    ctx.count("calls", 1);
    ctx.count("giant_zst_checks", 1);
    match (must_panic, r) {
        (true, Err(_)) => {
            ctx.count("rejected", 1);
            true
        }
        (false, Ok(true)) => true,
        (false, Ok(false)) => {
            ctx.violation(op, "giant:wrong-result", what);
            false
        }
        (true, Ok(_)) => {
            ctx.violation(op, "invalid-call-accepted", what);
            false
        }
        (false, Err(m)) => {
            ctx.violation(op, "valid-call-panicked", format!("{}: {}", what, m));
            false
        }
    }
}

pub fn giant_misc(ctx: &mut Ctx, prop: &str) {
    if ctx.scale != Scale::Native {
        return;
    }
    for (c, r) in giant_shapes() {
        if !ctx.case(|| format!("{} giant zero-sized array {}x{}", prop, c, r)) {
            continue;
        }
        let mut a: TooDee<()> = TooDee::from_vec(c, r, vec![(); c * r]);
        let mut ok = true;
        let inr = [(0usize, 0usize), (c - 1, r - 1), (c - 1, 0), (0, r - 1), (c / 2, r / 2)];
        let outr = [(c, r - 1), (c - 1, r), (c, r), (usize::MAX, usize::MAX), (0, usize::MAX), (usize::MAX, 0), (c.wrapping_mul(2), 0), (1, r.wrapping_add(usize::MAX / c.max(1)))];
        match prop {
            "C02" => {
                for &(x, y) in &inr {
                    ok &= expect(ctx, "index(coord)", format!("a[({},{})] on {}x{}", x, y, c, r), false, catches(|| { let _ = &a[(x, y)]; true }));
                    ok &= expect(ctx, "index(row)", format!("a[{}] on {}x{}", y, c, r), false, catches(|| a[y].len() == c));
                    ok &= expect(ctx, "col[i]", format!("a.col({})[{}] on {}x{}", x, y, c, r), false, catches(|| { let _ = &a.col(x)[y]; true }));
                    ok &= expect(ctx, "index_mut(coord)", format!("a[({},{})] (mut) on {}x{}", x, y, c, r), false, catches(|| { a[(x, y)] = (); true }));
                    ok &= expect(ctx, "view index", format!("view[({},{})] on {}x{}", x, y, c, r), false, catches(|| { let v = a.view((0, 0), (c, r)); let _ = &v[(x, y)]; v[y].len() == c }));
                    ok &= expect(ctx, "view_mut index", format!("view_mut[({},{})] on {}x{}", x, y, c, r), false, catches(|| { let mut v = a.view_mut((0, 0), (c, r)); v[(x, y)] = (); v.col_mut(x).len() == r }));
                }
                for &(x, y) in &outr {
                    if x < c && y < r {
                        continue;
                    }
                    ok &= expect(ctx, "index(coord)", format!("a[({},{})] on {}x{}", x, y, c, r), true, catches(|| { let _ = &a[(x, y)]; true }));
                    ok &= expect(ctx, "index_mut(coord)", format!("a[({},{})] (mut) on {}x{}", x, y, c, r), true, catches(|| { a[(x, y)] = (); true }));
                    ok &= expect(ctx, "col[i]", format!("a.col({})[{}] on {}x{}", x, y, c, r), true, catches(|| { let _ = &a.col(x)[y]; true }));
                    ok &= expect(ctx, "view index", format!("view[({},{})] on {}x{}", x, y, c, r), true, catches(|| { let v = a.view((0, 0), (c, r)); let _ = &v[(x, y)]; true }));
                    ok &= expect(ctx, "view_mut index", format!("view_mut[({},{})] on {}x{}", x, y, c, r), true, catches(|| { let mut v = a.view_mut((0, 0), (c, r)); v[(x, y)] = (); true }));
                    if y >= r {
                        ok &= expect(ctx, "index(row)", format!("a[{}] on {}x{}", y, c, r), true, catches(|| a[y].len() == c));
                    }
                }
            }
            "C03" => {
                let valid = [((0, 0), (c, r)), ((c - 1, r - 1), (c, r)), ((c / 2, r / 2), (c, r)), ((0, 0), (c - 1, r)), ((c, r), (c, r)), ((0, r), (c, r)), ((c / 3, 0), (c / 3, r))];
                for &(s, e) in &valid {
                    let (wc, wr) = (e.0 - s.0, e.1 - s.1);
                    let want = if wc == 0 || wr == 0 { (0, 0) } else { (wc, wr) };
                    ok &= expect(ctx, "view", format!("view({:?},{:?}) on {}x{}", s, e, c, r), false, catches(|| { let v = a.view(s, e); v.size() == want && v.rows().len() == want.1 }));
                    ok &= expect(ctx, "view_mut", format!("view_mut({:?},{:?}) on {}x{}", s, e, c, r), false, catches(|| { let mut v = a.view_mut(s, e); v.size() == want && v.rows_mut().len() == want.1 }));
                    ok &= expect(ctx, "view.view", format!("nested view of view({:?},{:?}) on {}x{}", s, e, c, r), false, catches(|| { let v = a.view(s, e); let w = v.view((0, 0), want); w.size() == want }));
                }
                let invalid = [((0, 0), (c + 0, r.wrapping_add(1))), ((0, 0), (c.wrapping_add(1), r)), ((1, 0), (0, r)), ((0, 0), (usize::MAX, usize::MAX)), ((c, r), (c.wrapping_add(1), r.wrapping_add(1)))];
                for &(s, e) in &invalid {
                    if s.0 <= e.0 && s.1 <= e.1 && e.0 <= c && e.1 <= r {
                        continue;
                    }
                    ok &= expect(ctx, "view", format!("view({:?},{:?}) on {}x{}", s, e, c, r), true, catches(|| { let v = a.view(s, e); v.size() == (0, 0) }));
                    ok &= expect(ctx, "view_mut", format!("view_mut({:?},{:?}) on {}x{}", s, e, c, r), true, catches(|| { let v = a.view_mut(s, e); v.size() == (0, 0) }));
                }
            }
            "C13" => {
                for &(x, y) in &inr {
                    let (x2, y2) = (c - 1 - x, r - 1 - y);
                    ok &= expect(ctx, "swap", format!("swap(({},{}),({},{})) on {}x{}", x, y, x2, y2, c, r), false, catches(|| { a.swap((x, y), (x2, y2)); true }));
                    ok &= expect(ctx, "swap(view)", format!("view swap(({},{}),({},{})) on {}x{}", x, y, x2, y2, c, r), false, catches(|| { a.view_mut((0, 0), (c, r)).swap((x, y), (x2, y2)); true }));
                    ok &= expect(ctx, "swap_rows", format!("swap_rows({},{}) on {}x{}", y, y2, c, r), false, catches(|| { a.swap_rows(y, y2); true }));
                    ok &= expect(ctx, "swap_rows(view)", format!("view swap_rows({},{}) on {}x{}", y, y2, c, r), false, catches(|| { a.view_mut((0, 0), (c, r)).swap_rows(y, y2); true }));
                    if y != y2 {
                        ok &= expect(ctx, "row_pair_mut", format!("row_pair_mut({},{}) on {}x{}", y, y2, c, r), false, catches(|| { let (p, q) = a.row_pair_mut(y, y2); p.len() == c && q.len() == c }));
                    }
                }
                for &(x, y) in &outr {
                    if x < c && y < r {
                        continue;
                    }
                    ok &= expect(ctx, "swap", format!("swap((0,0),({},{})) on {}x{}", x, y, c, r), true, catches(|| { a.swap((0, 0), (x, y)); true }));
                    ok &= expect(ctx, "swap(view)", format!("view swap((0,0),({},{})) on {}x{}", x, y, c, r), true, catches(|| { a.view_mut((0, 0), (c, r)).swap((0, 0), (x, y)); true }));
                    if y >= r {
                        ok &= expect(ctx, "swap_rows", format!("swap_rows(0,{}) on {}x{}", y, c, r), true, catches(|| { a.swap_rows(0, y); true }));
                        ok &= expect(ctx, "swap_rows(view)", format!("view swap_rows({},0) on {}x{}", y, c, r), true, catches(|| { a.view_mut((0, 0), (c, r)).swap_rows(y, 0); true }));
                        ok &= expect(ctx, "row_pair_mut", format!("row_pair_mut(0,{}) on {}x{}", y, c, r), true, catches(|| { let (p, _q) = a.row_pair_mut(0, y); p.len() == c }));
                    }
                }
            }
            _ => {
                // C20: constructors and conversions with giant dimensions
                let total = c * r;
                ok &= expect(ctx, "from_vec", format!("from_vec({},{},len {})", c, r, total), false, catches(|| { let b: TooDee<()> = TooDee::from_vec(c, r, vec![(); total]); b.size() == (c, r) && b.data().len() == total }));
                ok &= expect(ctx, "from_vec", format!("from_vec({},{},len {})", c, r, total - 1), true, catches(|| { let b: TooDee<()> = TooDee::from_vec(c, r, vec![(); total - 1]); b.size() == (c, r) }));
                ok &= expect(ctx, "from_vec", format!("from_vec({},{},len {}) (overflowing product)", c.wrapping_mul(2).max(2), r.max(2), total), true, catches(|| { let b: TooDee<()> = TooDee::from_vec(c.saturating_mul(2).max(2), r.saturating_mul(2).max(2), vec![(); total]); b.num_cols() > 0 }));
                ok &= expect(ctx, "TooDeeView::new", format!("TooDeeView::new({},{}, slice of {})", c, r, total), false, catches(|| { let s = vec![(); total]; let v = TooDeeView::new(c, r, &s); v.size() == (c, r) && v.rows().len() == r }));
                ok &= expect(ctx, "TooDeeView::new", format!("TooDeeView::new({},{}, slice of {})", c, r, total - 1), true, catches(|| { let s = vec![(); total - 1]; let v = TooDeeView::new(c, r, &s); v.size() == (c, r) }));
                ok &= expect(ctx, "TooDeeViewMut::new", format!("TooDeeViewMut::new({},{}, slice of {})", c, r, total), false, catches(|| { let mut s = vec![(); total]; let v = TooDeeViewMut::new(c, r, &mut s); v.size() == (c, r) }));
                ok &= expect(ctx, "Vec::from", format!("Vec::from({}x{})", c, r), false, catches(|| { let b: TooDee<()> = TooDee::from_vec(c, r, vec![(); total]); let v: Vec<()> = b.into(); v.len() == total }));
                ok &= expect(ctx, "into_iter", format!("into_iter({}x{})", c, r), false, catches(|| { let b: TooDee<()> = TooDee::from_vec(c, r, vec![(); total]); b.into_iter().len() == total }));
                ok &= expect(ctx, "eq", format!("{}x{} == {}x{} with the same cells", c, r, r, c), false, catches(|| { let b: TooDee<()> = TooDee::from_vec(r, c, vec![(); total]); (a == b) == (c == r) }));
            }
        }
        if ok {
            ctx.nontrivial((prop.to_string(), "giant", c, r));
        }
    }
}
