use crate::ctx::Ctx;
pub fn run_c02(_ctx: &mut Ctx) { unimplemented!() }
pub fn run_c03(_ctx: &mut Ctx) { unimplemented!() }
