//! C20: constructors and conversions preserve contents and reject bad shapes; clone / Eq / Hash.
use crate::ctx::*;
use crate::elem::*;
use crate::model::*;
use crate::monitor::*;
use std::collections::HashSet;
use toodee::*;

fn nsel(ctx: &Ctx, miri_q: usize, miri_t: usize, vg: usize, quick: usize, thorough: usize) -> usize {
    match (ctx.scale, ctx.tier) {
        (Scale::Miri, Tier::Quick) => miri_q,
        (Scale::Miri, Tier::Thorough) => miri_t,
        (Scale::Vg, _) => vg,
        (Scale::Native, Tier::Quick) => quick,
        (Scale::Native, Tier::Thorough) => thorough,
    }
}

#[derive(Clone, Copy, Debug, Hash, PartialEq, Eq)]
enum Ctor {
    New,
    Init,
    FromVec,
    FromBox,
    ViewNew,
    ViewMutNew,
}

fn dim_class(d: usize, n: usize) -> u8 {
    if d == 0 {
        0
    } else if d <= n {
        1
    } else {
        2
    }
}

fn ctor_owned<T: Elem + Clone + Default>(ctx: &mut Ctx, k: Ctor, c: usize, r: usize, blen: usize, n: usize) {
    ledger_reset();
    kv_reset();
    let prod = c.checked_mul(r);
    let zero_rule_bad = (c == 0) != (r == 0);
    let valid = prod.is_some() && !zero_rule_bad && (matches!(k, Ctor::New | Ctor::Init) || prod == Some(blen));
    if valid && matches!(k, Ctor::New | Ctor::Init) && prod.unwrap() > 4096 {
        return;
    }
    // `new`/`init` with a huge product that does not overflow would try to allocate: only must-reject
    // requests and small accepted ones are in the space
    if matches!(k, Ctor::New | Ctor::Init) && !valid && prod.map_or(false, |p| p > 4096) && !zero_rule_bad {
        return;
    }
    let opn = match k {
        Ctor::New => "new",
        Ctor::Init => "init",
        Ctor::FromVec => "from_vec",
        _ => "from_box",
    };
    let what = format!("{}({}, {}) buffer len {} ({})", opn, c, r, blen, T::NAME);
    ctx.count("calls", 1);
    let seed_val = T::fresh(77);
    let seed_mc = mc(&seed_val);
    let mut buf_mc: Vec<Mc> = vec![];
    let res = match k {
        Ctor::New => catches(|| TooDee::<T>::new(c, r)),
        Ctor::Init => {
            let sv = seed_val.clone();
            catches(move || TooDee::<T>::init(c, r, sv))
        }
        Ctor::FromVec => {
            let mut buf: Vec<T> = Vec::with_capacity(blen + 3);
            buf.extend((0..blen).map(|i| T::fresh(10 + (i % 4) as u32)));
            buf_mc = buf.iter().map(mc).collect();
            catches(move || TooDee::from_vec(c, r, buf))
        }
        _ => {
            let buf: Vec<T> = (0..blen).map(|i| T::fresh(10 + (i % 4) as u32)).collect();
            buf_mc = buf.iter().map(mc).collect();
            catches(move || TooDee::from_box(c, r, buf.into_boxed_slice()))
        }
    };
    match (valid, res) {
        (true, Ok(a)) => {
            ctx.count("accepted", 1);
            let p = prod.unwrap();
            let flat: Vec<Mc> = match k {
                Ctor::New => (0..p).map(|_| Mc { uid: FRESH, key: 0 }).collect(),
                Ctor::Init => (0..p).map(|_| if T::CLONE_KEEPS_UID { seed_mc } else { Mc { uid: FRESH, key: seed_mc.key } }).collect(),
                _ => buf_mc.clone(),
            };
            let mut g = if p == 0 { Grid::empty() } else { Grid::from_flat(c, r, &flat) };
            let ok = check_shape(ctx, opn, &a, &mut g) & check_tokens(ctx, opn, &a, &HashSet::new()) & check_double_drops(ctx, opn);
            if ok {
                ctx.nontrivial(("ctor", k, dim_class(c, n), dim_class(r, n), c.min(n + 1), r.min(n + 1), blen.min(99), T::NAME, true));
            }
            drop(a);
            drop(seed_val);
            check_double_drops(ctx, opn);
            check_no_leak(ctx, opn);
        }
        (false, Err(_)) => {
            ctx.count("rejected", 1);
            check_double_drops(ctx, opn);
            ctx.nontrivial(("ctor", k, dim_class(c, n), dim_class(r, n), c.min(n + 1), r.min(n + 1), blen.min(99), T::NAME, false));
        }
        (true, Err(m)) => ctx.violation(opn, "valid-call-panicked", format!("{}: {}", what, m)),
        (false, Ok(a)) => {
            ctx.violation(opn, "invalid-call-accepted", format!("{}: returned an array of size {:?} with {} cells", what, a.size(), a.data().len()));
        }
    }
    ledger_counts(ctx);
}

fn ctor_view(ctx: &mut Ctx, k: Ctor, c: usize, r: usize, blen: usize, n: usize) {
    let prod = c.checked_mul(r);
    let zero_rule_bad = (c == 0) != (r == 0);
    let valid = prod.map_or(false, |p| p <= blen) && !zero_rule_bad;
    let opn = if k == Ctor::ViewNew { "TooDeeView::new" } else { "TooDeeViewMut::new" };
    let what = format!("{}({}, {}) slice len {}", opn, c, r, blen);
    ctx.count("calls", 1);
    let mut buf: Vec<u32> = (0..blen as u32).collect();
    let base = buf.as_ptr() as usize;
    let chk = |ctx: &mut Ctx, size: (usize, usize), rows: Vec<(usize, usize)>, first: Option<usize>| -> bool {
        let p = prod.unwrap();
        let mut ok = true;
        if size != (if p == 0 { (0, 0) } else { (c, r) }) {
            ctx.violation(opn, "ctor:size", format!("{}: size {:?}", what, size));
            ok = false;
        }
        let want: Vec<(usize, usize)> = (0..if p == 0 { 0 } else { r }).map(|i| (base + i * c * 4, c)).collect();
        if rows != want {
            ctx.violation(opn, "ctor:rows", format!("{}: rows {:x?} expected {:x?}", what, rows, want));
            ok = false;
        }
        if p > 0 && first != Some(base) {
            ctx.violation(opn, "ctor:first-cell", what.clone());
            ok = false;
        }
        ok
    };
    let res = if k == Ctor::ViewNew {
        catches(|| {
            let v = TooDeeView::new(c, r, &buf);
            (v.size(), v.rows().map(|x| (x.as_ptr() as usize, x.len())).collect::<Vec<_>>(), if v.is_empty() { None } else { Some(&v[(0, 0)] as *const u32 as usize) })
        })
    } else {
        catches(|| {
            let v = TooDeeViewMut::new(c, r, &mut buf);
            (v.size(), v.rows().map(|x| (x.as_ptr() as usize, x.len())).collect::<Vec<_>>(), if v.is_empty() { None } else { Some(&v[(0, 0)] as *const u32 as usize) })
        })
    };
    match (valid, res) {
        (true, Ok((size, rows, first))) => {
            ctx.count("accepted", 1);
            if chk(ctx, size, rows, first) {
                ctx.nontrivial(("ctor", k, dim_class(c, n), dim_class(r, n), c.min(n + 1), r.min(n + 1), blen.min(99), true));
            }
        }
        (false, Err(_)) => {
            ctx.count("rejected", 1);
            ctx.nontrivial(("ctor", k, dim_class(c, n), dim_class(r, n), c.min(n + 1), r.min(n + 1), blen.min(99), false));
        }
        (true, Err(m)) => ctx.violation(opn, "valid-call-panicked", format!("{}: {}", what, m)),
        (false, Ok((size, _, _))) => ctx.violation(opn, "invalid-call-accepted", format!("{}: returned a view of size {:?}", what, size)),
    }
}

fn key_of(c: usize, r: usize) -> u32 {
    ((c * 7 + r * 3) % 5) as u32
}

/// From<view>, From<view_mut> for every window of a parent.
fn from_view_case<T: Elem + Clone>(ctx: &mut Ctx, pshape: (usize, usize)) {
    let mut wins = windows(pshape.0, pshape.1);
    if wins.len() > 2000 {
        // large parents: a deterministic sample of the windows
        let step = wins.len() / 40;
        wins = wins.into_iter().step_by(step).collect();
        wins.push(((0, 0), pshape));
        wins.push(((1, 1), pshape));
    }
    for (s, e) in wins {
        for m in [false, true] {
            ledger_reset();
            kv_reset();
            let (mut parent, pg) = build::<T>(pshape.0, pshape.1, &key_of);
            let wg = pg.window(s, e).unwrap();
            let opn = if m { "From<TooDeeViewMut>" } else { "From<TooDeeView>" };
            let res = catches(|| if m { TooDee::from(parent.view_mut(s, e)) } else { TooDee::from(parent.view(s, e)) });
            ctx.count("calls", 1);
            match res {
                Err(msg) => ctx.violation(opn, "valid-call-panicked", format!("window {:?} of {:?}: {}", (s, e), pshape, msg)),
                Ok(a) => {
                    let mut g = wg.clone();
                    if !T::CLONE_KEEPS_UID {
                        for row in &mut g.cells {
                            for cell in row.iter_mut() {
                                cell.uid = FRESH;
                            }
                        }
                    }
                    let mut ok = check_shape(ctx, opn, &a, &mut g) & check_tokens(ctx, opn, &a, &HashSet::new());
                    // independent of the parent: no shared owners, parent unchanged
                    if T::OWNS && !T::IS_ZST {
                        let pids: HashSet<u64> = parent.data().iter().map(|t| t.uid()).collect();
                        if a.data().iter().any(|t| pids.contains(&t.uid())) {
                            ctx.violation(opn, "clone:shares-owner", format!("window {:?} of {:?}", (s, e), pshape));
                            ok = false;
                        }
                    }
                    let mut pg2 = pg.clone();
                    ok &= check_shape(ctx, opn, &parent, &mut pg2);
                    if ok {
                        ctx.nontrivial(("fromview", m, pshape, s, e, T::NAME));
                    }
                    drop(a);
                }
            }
            drop(parent);
            check_double_drops(ctx, opn);
            check_no_leak(ctx, opn);
            ledger_counts(ctx);
        }
    }
}

/// Conversions out of an owned array + clone.
fn conv_case<T: Elem + Clone + PartialEq>(ctx: &mut Ctx, shape: (usize, usize)) {
    let (c, r) = shape;
    // Vec::from, Box::from, AsRef
    for which in 0..4 {
        ledger_reset();
        kv_reset();
        let (mut a0, g) = build::<T>(c, r, &key_of);
        if which % 2 == 1 {
            a0.reserve(5);
        }
        let mut keep: Option<TooDee<T>> = None;
        let want = g.flat();
        let opn = ["Vec::from", "Box::from", "AsRef<[T]>", "AsRef<Vec<T>>/AsMut"][which];
        ctx.count("calls", 1);
        let got: Vec<Mc> = match which {
            0 => {
                let v: Vec<T> = a0.into();
                v.iter().map(mc).collect()
            }
            1 => {
                let b: Box<[T]> = a0.into();
                b.iter().map(mc).collect()
            }
            2 => {
                let a = keep.insert(a0);
                let s: &[T] = a.as_ref();
                let base_ok = s.as_ptr() == a.data().as_ptr();
                if !base_ok {
                    ctx.violation(opn, "conv:not-same-buffer", format!("{:?}", shape));
                }
                s.iter().map(mc).collect()
            }
            _ => {
                let a = keep.insert(a0);
                let v: &Vec<T> = a.as_ref();
                let x: Vec<Mc> = v.iter().map(mc).collect();
                let ms: &mut [T] = a.as_mut();
                if ms.len() != x.len() || ms.as_ptr() != a.data().as_ptr() {
                    ctx.violation(opn, "conv:not-same-buffer", format!("{:?}", shape));
                }
                x
            }
        };
        if !T::IS_ZST && got != want || got.len() != want.len() {
            ctx.violation(opn, "conv:cells", format!("shape {:?}: {:?} expected {:?}", shape, got, want));
        } else {
            ctx.nontrivial(("conv", which, shape, T::NAME));
        }
        drop(keep);
        check_double_drops(ctx, opn);
        check_no_leak(ctx, opn);
    }
    // into_iter consumed (front, back) then dropped
    let n = c * r;
    for front in 0..=n.min(4) {
        for back in 0..=(n - front).min(3) {
            ledger_reset();
            kv_reset();
            let (a, g) = build::<T>(c, r, &key_of);
            let want = g.flat();
            let mut it = a.into_iter();
            let mut held = vec![];
            let mut ok = it.len() == n;
            for i in 0..front {
                match it.next() {
                    Some(x) => {
                        ok &= T::IS_ZST || mc(&x) == want[i];
                        held.push(x)
                    }
                    None => ok = false,
                }
            }
            for i in 0..back {
                match it.next_back() {
                    Some(x) => {
                        ok &= T::IS_ZST || mc(&x) == want[n - 1 - i];
                        held.push(x)
                    }
                    None => ok = false,
                }
            }
            ok &= it.len() == n - front - back;
            ctx.count("calls", 1);
            if !ok {
                ctx.violation("into_iter", "conv:cells", format!("shape {:?} front {} back {}", shape, front, back));
            }
            drop(it);
            for h in &held {
                if T::OWNS && !T::IS_ZST && !is_live(h.uid()) {
                    ctx.violation("into_iter", "ledger:held-not-live", format!("id {}", h.uid()));
                }
            }
            drop(held);
            check_double_drops(ctx, "into_iter");
            check_no_leak(ctx, "into_iter");
            if ok {
                ctx.nontrivial(("into_iter", shape, front, back, T::NAME));
            }
        }
    }
    // the by-value iterator against std's own `vec::IntoIter` over the expected cells: every script of
    // two steps over next / next_back / nth / nth_back (in-range, last, beyond) and one of seven ways to
    // finish; items compared by identity, lengths after every step, skipped elements must be dropped
    {
        #[derive(Clone, Copy, Debug)]
        enum S {
            Next,
            Back,
            Nth(usize),
            NthBack(usize),
        }
        let mut steps = vec![S::Next, S::Back];
        let mut ns = vec![0usize, 1, 2, c, n.saturating_sub(1), n, n + 1, usize::MAX];
        ns.sort();
        ns.dedup();
        for &k in &ns {
            steps.push(S::Nth(k));
            steps.push(S::NthBack(k));
        }
        let nsteps = steps.len();
        let mut scripts: Vec<Vec<S>> = vec![vec![]];
        for i in 0..nsteps {
            scripts.push(vec![steps[i]]);
            for j in 0..nsteps {
                scripts.push(vec![steps[i], steps[j]]);
            }
        }
        let thin = if matches!(ctx.scale, Scale::Native) { 1 } else { 23 };
        for (si, script) in scripts.iter().enumerate() {
            for fin in 0..7usize {
                if (si * 7 + fin) % thin != 0 {
                    continue;
                }
                ledger_reset();
                kv_reset();
                let (a, g) = build::<T>(c, r, &key_of);
                let want = g.flat();
                let mut ideal = (0..n).collect::<Vec<usize>>().into_iter();
                let what = format!("shape {:?} script {:?} finish {}", shape, script, fin);
                ctx.count("calls", 1);
                let res = catches(|| {
                    let mut it = a.into_iter();
                    let mut held: Vec<T> = vec![];
                    let mut ok = true;
                    let same = |x: &Option<T>, i: &Option<usize>| match (x, i) {
                        (None, None) => true,
                        (Some(x), Some(i)) => T::IS_ZST || mc(x) == want[*i],
                        _ => false,
                    };
                    for st in script {
                        let (x, i) = match *st {
                            S::Next => (it.next(), ideal.next()),
                            S::Back => (it.next_back(), ideal.next_back()),
                            S::Nth(k) => (it.nth(k), ideal.nth(k)),
                            S::NthBack(k) => (it.nth_back(k), ideal.nth_back(k)),
                        };
                        ok &= same(&x, &i);
                        held.extend(x);
                        ok &= it.len() == ideal.len() && it.size_hint() == ideal.size_hint();
                    }
                    match fin {
                        0 => drop(it),
                        1 => {
                            let rest: Vec<T> = it.collect();
                            let irest: Vec<usize> = ideal.collect();
                            ok &= rest.len() == irest.len() && rest.iter().zip(&irest).all(|(x, i)| T::IS_ZST || mc(x) == want[*i]);
                            held.extend(rest);
                        }
                        2 => {
                            let rest: Vec<T> = it.rev().collect();
                            let irest: Vec<usize> = ideal.rev().collect();
                            ok &= rest.len() == irest.len() && rest.iter().zip(&irest).all(|(x, i)| T::IS_ZST || mc(x) == want[*i]);
                            held.extend(rest);
                        }
                        3 => ok &= it.count() == ideal.count(),
                        4 => {
                            let (x, i) = (it.last(), ideal.last());
                            ok &= same(&x, &i);
                            held.extend(x);
                        }
                        5 => {
                            let seen: Vec<Mc> = it.fold(vec![], |mut v, x| {
                                v.push(mc(&x));
                                v
                            });
                            let iseen: Vec<usize> = ideal.collect();
                            ok &= seen.len() == iseen.len() && seen.iter().zip(&iseen).all(|(x, i)| T::IS_ZST || *x == want[*i]);
                        }
                        _ => {
                            let seen: Vec<Mc> = it.rfold(vec![], |mut v, x| {
                                v.push(mc(&x));
                                v
                            });
                            let iseen: Vec<usize> = ideal.rev().collect();
                            ok &= seen.len() == iseen.len() && seen.iter().zip(&iseen).all(|(x, i)| T::IS_ZST || *x == want[*i]);
                        }
                    }
                    for h in &held {
                        if T::OWNS && !T::IS_ZST && !is_live(h.uid()) {
                            ok = false;
                        }
                    }
                    ok
                });
                match res {
                    Ok(true) => {
                        ctx.nontrivial(("into_iter-script", shape, si, fin, T::NAME));
                    }
                    Ok(false) => ctx.violation("into_iter", "conv:sequence", what),
                    Err(m) => ctx.violation("into_iter", "conv:panicked", format!("{}: {}", what, m)),
                }
                check_double_drops(ctx, "into_iter");
                check_no_leak(ctx, "into_iter");
            }
        }
    }
    // clone: equal and independent
    {
        ledger_reset();
        kv_reset();
        let (a, mut g) = build::<T>(c, r, &key_of);
        let mut b = a.clone();
        ctx.count("calls", 1);
        let mut ok = true;
        if !(a == b) || a.size() != b.size() {
            ctx.violation("clone", "clone:not-equal", format!("{:?}", shape));
            ok = false;
        }
        let mut gb = g.clone();
        if !T::CLONE_KEEPS_UID {
            for row in &mut gb.cells {
                for cell in row.iter_mut() {
                    cell.uid = FRESH;
                }
            }
        }
        ok &= check_shape(ctx, "clone", &b, &mut gb) & check_tokens(ctx, "clone", &b, &HashSet::new());
        if n > 0 {
            if b.data().as_ptr() == a.data().as_ptr() && std::mem::size_of::<T>() > 0 {
                ctx.violation("clone", "clone:shares-buffer", format!("{:?}", shape));
                ok = false;
            }
            if T::OWNS && !T::IS_ZST {
                let ids: HashSet<u64> = a.data().iter().map(|t| t.uid()).collect();
                if b.data().iter().any(|t| ids.contains(&t.uid())) {
                    ctx.violation("clone", "clone:shares-owner", format!("{:?}", shape));
                    ok = false;
                }
            }
            // mutate the clone, the original must not move
            b[(c - 1, r - 1)] = T::fresh(99);
            b.swap((0, 0), (c - 1, r - 1));
            ok &= check_shape(ctx, "clone", &a, &mut g);
            if !T::IS_ZST && a == b && n > 0 {
                ctx.violation("clone", "eq:differing-cell-equal", format!("{:?}", shape));
                ok = false;
            }
        }
        drop(a);
        ok &= check_tokens(ctx, "clone", &b, &HashSet::new());
        drop(b);
        check_double_drops(ctx, "clone");
        check_no_leak(ctx, "clone");
        if ok {
            ctx.nontrivial(("clone", shape, T::NAME));
        }
        ledger_counts(ctx);
    }
}

fn hash_arr(a: &TooDee<Kv>) -> u64 {
    hash_of(a)
}

/// a == b <=> same dims and same cells; a == b => hash(a) == hash(b)
fn eq_hash_sweep(ctx: &mut Ctx, maxlen: usize) {
    let mut arrs: Vec<(usize, usize, Vec<u32>, TooDee<Kv>)> = vec![];
    for len in 0..=maxlen {
        let shapes: Vec<(usize, usize)> = if len == 0 { vec![(0, 0)] } else { (1..=len).filter(|c| len % c == 0).map(|c| (c, len / c)).collect() };
        for pat in 0..(1usize << len) {
            let keys: Vec<u32> = (0..len).map(|i| ((pat >> i) & 1) as u32).collect();
            for &(c, r) in &shapes {
                let v: Vec<Kv> = keys.iter().map(|k| Kv::fresh(*k)).collect();
                arrs.push((c, r, keys.clone(), TooDee::from_vec(c, r, v)));
            }
        }
    }
    let hashes: Vec<u64> = arrs.iter().map(|a| hash_arr(&a.3)).collect();
    for (i, a) in arrs.iter().enumerate() {
        for (j, b) in arrs.iter().enumerate() {
            let want = a.0 == b.0 && a.1 == b.1 && a.2 == b.2;
            let got = a.3 == b.3;
            ctx.count("calls", 1);
            if got != want || (a.3 != b.3) == want {
                ctx.violation("eq", "eq:wrong", format!("{}x{} {:?} vs {}x{} {:?}: == is {}", a.0, a.1, a.2, b.0, b.1, b.2, got));
            } else if got && hashes[i] != hashes[j] {
                ctx.violation("hash", "hash:equal-arrays-differ", format!("{}x{} {:?}", a.0, a.1, a.2));
            } else if (a.2 == b.2) != want || got {
                // pairs that share contents but not shape, and genuinely equal pairs, are the interesting ones
                ctx.nontrivial(("eq", a.0, a.1, &a.2, b.0, b.1, &b.2));
            }
        }
    }
    ctx.count("eq_pairs", (arrs.len() * arrs.len()) as u64);
    // element types whose equality is not reflexive: an array holding a NaN cell does not have "equal
    // cells" even when compared with itself, so == must be false (this is what Vec and slices do too)
    for (c, r) in [(1usize, 1usize), (2, 2), (3, 1), (1, 4)] {
        for pos in 0..c * r {
            let mut v: Vec<f64> = (0..c * r).map(|i| i as f64).collect();
            let plain = TooDee::from_vec(c, r, v.clone());
            v[pos] = f64::NAN;
            let a = TooDee::from_vec(c, r, v);
            let b = a.clone();
            ctx.count("calls", 3);
            #[allow(clippy::eq_op)]
            let self_eq = a == a;
            if self_eq || a == b || !(a != a) {
                ctx.violation("eq", "eq:non-reflexive-cells-equal", format!("{}x{} with NaN at {}: a==a is {}, a==clone is {}", c, r, pos, self_eq, a == b));
            } else if !(plain == plain.clone()) || plain == a {
                ctx.violation("eq", "eq:wrong", format!("{}x{} f64 arrays", c, r));
            } else {
                ctx.nontrivial(("eq-nan", c, r, pos));
            }
        }
    }
}

pub fn run_c20(ctx: &mut Ctx) {
    let n = nsel(ctx, 2, 3, 3, 6, 14);
    let mut dims: Vec<usize> = (0..=n).collect();
    if ctx.scale == Scale::Native {
        dims.extend([31, 32, 33, 64, 100]);
    }
    dims.extend([usize::MAX, usize::MAX / 2 + 1, 1usize << 32, (1usize << 32) + 1, 1usize << 63]);
    for &c in &dims {
        for &r in &dims {
            if !ctx.case(|| format!("C20 ctor dims=({},{})", c, r)) {
                if ctx.done() {
                    return;
                }
                continue;
            }
            let prod = c.checked_mul(r);
            let mut lens: Vec<usize> = vec![0, 1];
            if let Some(p) = prod {
                if p <= 4096 {
                    lens.extend([p.saturating_sub(1), p, p + 1, p + 7]);
                }
            }
            // lengths that equal the wrapped product
            let wrapped = c.wrapping_mul(r);
            if wrapped <= 4096 {
                lens.push(wrapped);
            }
            lens.sort_unstable();
            lens.dedup();
            for &l in &lens {
                for k in [Ctor::FromVec, Ctor::FromBox] {
                    ctor_owned::<Kv>(ctx, k, c, r, l, n);
                    ctor_owned::<Tok>(ctx, k, c, r, l, n);
                    ctor_owned::<Zst>(ctx, k, c, r, l, n);
                }
                for k in [Ctor::ViewNew, Ctor::ViewMutNew] {
                    ctor_view(ctx, k, c, r, l, n);
                }
            }
            for k in [Ctor::New, Ctor::Init] {
                ctor_owned::<Kv>(ctx, k, c, r, 0, n);
                ctor_owned::<Tok>(ctx, k, c, r, 0, n);
                ctor_owned::<Zst>(ctx, k, c, r, 0, n);
            }
        }
    }
    let nv = nsel(ctx, 2, 3, 3, 5, 8);
    let mut conv_shapes = shapes(nv);
    if ctx.scale == Scale::Native {
        conv_shapes.extend([(9, 7), (33, 2), (2, 33), (40, 30)]);
    }
    for shape in conv_shapes {
        if ctx.case(|| format!("C20 from-view parent={}x{}", shape.0, shape.1)) {
            from_view_case::<Kv>(ctx, shape);
            from_view_case::<Tok>(ctx, shape);
        }
        if ctx.case(|| format!("C20 conversions shape={}x{}", shape.0, shape.1)) {
            conv_case::<Kv>(ctx, shape);
            conv_case::<Tok>(ctx, shape);
            conv_case::<Zst>(ctx, shape);
        }
        if ctx.done() {
            return;
        }
    }
    let ml = nsel(ctx, 3, 4, 4, 6, 9);
    if ctx.case(|| format!("C20 eq/hash sweep up to {} cells", ml)) {
        eq_hash_sweep(ctx, ml);
    }
    crate::wl_access::giant_misc(ctx, "C20");
}
