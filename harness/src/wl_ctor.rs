use crate::ctx::Ctx;
pub fn run_c20(_ctx: &mut Ctx) { unimplemented!() }
