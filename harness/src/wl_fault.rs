//! C11 (a panic in caller-supplied code leaves a valid array) and C12 (leaking a drain, iterator or
//! view leaves a valid array): crash-point / leak-point enumeration.
use crate::ctx::*;
use crate::elem::*;
use crate::model::shapes;
use crate::monitor::*;
use crate::ops::*;
use crate::wl_insrem::Axis;
use crate::wl_serde::shape_ok;
use std::collections::{HashSet, VecDeque};
use toodee::*;

fn nsel(ctx: &Ctx, miri_q: usize, miri_t: usize, vg: usize, quick: usize, thorough: usize) -> usize {
    match (ctx.scale, ctx.tier) {
        (Scale::Miri, Tier::Quick) => miri_q,
        (Scale::Miri, Tier::Thorough) => miri_t,
        (Scale::Vg, _) => vg,
        (Scale::Native, Tier::Quick) => quick,
        (Scale::Native, Tier::Thorough) => thorough,
    }
}

/// catch_unwind around the operation under test; afterwards fault injection is paused so that values
/// owned by the harness can be dropped without becoming crash points.
fn guarded<R>(f: impl FnOnce() -> R) -> Result<R, String> {
    let r = catches(f);
    fault_pause();
    r
}

fn key_of(c: usize, r: usize) -> u32 {
    ((c * 7 + r * 3) % 3) as u32
}

/// Validity of a survivor: shape invariant + every reachable element live, distinct, not held.
fn validate<T: Elem>(ctx: &mut Ctx, opn: &str, what: &str, a: &TooDee<T>, held: &HashSet<u64>) -> bool {
    if let Err(e) = shape_ok(a) {
        ctx.violation(opn, "survivor:shape", format!("{}: {}", what, e));
        return false;
    }
    check_tokens(ctx, opn, a, held) & check_double_drops(ctx, opn)
}

/// Keep using the survivor: read, push a row, remove a column, sort, clone, then drop it.
/// Any panic or ledger complaint here is a violation ("...then or later").
fn exercise<T: Elem + Clone + Ord>(ctx: &mut Ctx, opn: &str, what: &str, mut a: TooDee<T>) {
    fault_disarm();
    let r = guarded(|| {
        let mut sum = 0u64;
        for c in a.cells() {
            sum = sum.wrapping_add(c.uid());
        }
        for r in 0..a.num_rows() {
            for c in 0..a.num_cols() {
                sum = sum.wrapping_add(a[(c, r)].key() as u64);
            }
        }
        let nc = a.num_cols();
        let items: Vec<T> = (0..if nc == 0 { 2 } else { nc }).map(|_| T::fresh(7)).collect();
        a.push_row(items);
        let nr = a.num_rows();
        a.insert_col(0, (0..nr).map(|_| T::fresh(8)).collect::<Vec<_>>());
        {
            let mut d = a.remove_col(a.num_cols() - 1);
            let _first = d.next();
        }
        a.sort_by_row(0, |x, y| x.key().cmp(&y.key()));
        a.sort_by_col(0, |x, y| y.key().cmp(&x.key()));
        let b = a.clone();
        drop(b);
        {
            let _d = a.remove_row(0);
        }
        a.swap_dimensions();
        sum
    });
    ctx.count("survivor_followups", 1);
    match r {
        Err(m) => {
            ctx.violation(opn, "survivor:followup-panicked", format!("{}: later use panicked: {}", what, m));
        }
        Ok(_) => {
            validate(ctx, opn, what, &a, &HashSet::new());
        }
    }
    let r = guarded(move || drop(a));
    if let Err(m) = r {
        ctx.violation(opn, "survivor:drop-panicked", format!("{}: {}", what, m));
    }
    check_double_drops(ctx, opn);
}

// ================================================================================================
// C11

/// An operation under fault injection: `run` performs it on a fresh array and returns the survivor
/// (None if the operation consumes / does not produce an array) plus ids the caller holds.
struct FaultOp<'a, T> {
    opn: &'static str,
    desc: String,
    run: &'a dyn Fn(&mut Ctx) -> (Option<TooDee<T>>, Vec<T>),
    kinds: &'a [Kind],
}

/// Enumerate crash points of one operation: fault-free run to count calls, then every (kind, k).
fn enumerate_faults<T: Elem + Clone + Ord>(ctx: &mut Ctx, fo: &FaultOp<'_, T>) {
    // fault-free run
    ledger_reset();
    fault_reset();
    let (surv, held) = (fo.run)(ctx);
    let counts: Vec<u64> = fo.kinds.iter().map(|k| fault_calls(*k)).collect();
    let held_ids: HashSet<u64> = held.iter().map(|t| t.uid()).collect();
    if let Some(a) = surv {
        let what = format!("{} (fault-free)", fo.desc);
        if validate(ctx, fo.opn, &what, &a, &held_ids) {
            drop(held);
            exercise(ctx, fo.opn, &what, a);
        }
    } else {
        drop(held);
    }
    check_double_drops(ctx, fo.opn);
    ctx.count("calls", 1);
    for (ki, kind) in fo.kinds.iter().enumerate() {
        for k in 0..counts[ki] {
            ledger_reset();
            fault_reset();
            fault_arm(*kind, k);
            let (surv, held) = (fo.run)(ctx);
            let fired = fault_fired();
            fault_disarm();
            ctx.count("calls", 1);
            let what = format!("{} with {:?}#{} panicking", fo.desc, kind, k);
            if fired {
                ctx.detail(|| format!("{}: panic injected and caught, survivor {}", what, match &surv { Some(a) => format!("size {:?}", a.size()), None => "n/a".into() }));
                ctx.count("panics_injected", 1);
                ctx.seen("crash_points", (fo.opn, &fo.desc, *kind, k));
            } else {
                ctx.count("faults_not_reached", 1);
            }
            let held_ids: HashSet<u64> = held.iter().map(|t| t.uid()).collect();
            if T::OWNS && !T::IS_ZST {
                for h in &held {
                    if !is_live(h.uid()) {
                        ctx.violation(fo.opn, "ledger:held-not-live", format!("{}: id {}", what, h.uid()));
                    }
                }
            }
            match surv {
                Some(a) => {
                    if validate(ctx, fo.opn, &what, &a, &held_ids) {
                        drop(held);
                        exercise(ctx, fo.opn, &what, a);
                        if fired {
                            ctx.nontrivial((fo.opn, &fo.desc, *kind, k));
                        }
                    } else {
                        // do not touch a broken array any further; leak it
                        std::mem::forget(a);
                    }
                }
                None => {
                    drop(held);
                    if check_double_drops(ctx, fo.opn) && fired {
                        ctx.nontrivial((fo.opn, &fo.desc, *kind, k));
                    }
                }
            }
            check_double_drops(ctx, fo.opn);
        }
    }
    ledger_counts(ctx);
}

fn toks<T: Elem>(n: usize, key: u32) -> Vec<T> {
    (0..n).map(|i| T::fresh(key + (i % 3) as u32)).collect()
}

fn insert_with<T>(a: &mut TooDee<T>, axis: Axis, push: bool, idx: usize, it: Sup<T>) {
    match (axis, push) {
        (Axis::Row, false) => a.insert_row(idx, it),
        (Axis::Row, true) => a.push_row(it),
        (Axis::Col, false) => a.insert_col(idx, it),
        (Axis::Col, true) => a.push_col(it),
    }
}

fn c11_insert<T: Elem + Clone + Ord + Default>(ctx: &mut Ctx, shape: (usize, usize), axis: Axis, big: bool) {
    let (c, r) = shape;
    let dim = if axis == Axis::Row { r } else { c };
    let line = if axis == Axis::Row { c } else { r };
    let lens: Vec<usize> = if c == 0 { vec![0, 1, 3] } else { vec![line] };
    let kinds = [Kind::IntoIter, Kind::Len, Kind::Next, Kind::NextBack, Kind::IterDrop];
    let idxs: Vec<usize> = if big { vec![0, dim / 2, dim] } else { (0..=dim).collect() };
    for idx in idxs {
        for push in [false, true] {
            if push && idx != dim {
                continue;
            }
            for &len in &lens {
                // honest iterator, k-th callback panics
                let run = |_ctx: &mut Ctx| {
                    let (mut a, _g) = build::<T>(c, r, &key_of);
                    a.reserve(if (idx + len) % 2 == 0 { 0 } else { len });
                    let items = toks::<T>(len, 30);
                    let _ = guarded(|| insert_with(&mut a, axis, push, idx, Sup(SupIter::new(items, LenLie::Honest, true))));
                    (Some(a), vec![])
                };
                let opn = match (axis, push) {
                    (Axis::Row, false) => "insert_row",
                    (Axis::Row, true) => "push_row",
                    (Axis::Col, false) => "insert_col",
                    (Axis::Col, true) => "push_col",
                };
                enumerate_faults(ctx, &FaultOp { opn, desc: format!("{}(idx={}, len={}) on {}x{} {}", opn, idx, len, c, r, T::NAME), run: &run, kinds: &kinds });
                // lying iterators (no injected panic needed; combined with injected ones as well)
                // (real number of items, what len() claims): claims that disagree with the array's line
                // length are rejected up front; claims that AGREE with it while the iterator holds fewer
                // (runs dry mid-row) or more items (debug: exhaustion assertion) get past that check
                let base_len = if c == 0 { len.max(1) } else { line };
                let mut lies: Vec<(usize, LenLie)> = vec![
                    (base_len, LenLie::Plus(1)),
                    (base_len, LenLie::Plus(3)),
                    (base_len, LenLie::Minus(1)),
                    (base_len, LenLie::Fixed(0)),
                    (base_len, LenLie::Fixed(usize::MAX)),
                    (base_len, LenLie::Fixed(usize::MAX / 2 + 1)),
                    (base_len, LenLie::Flicker),
                    (base_len.saturating_sub(1), LenLie::Plus(1)),
                    (0, LenLie::Fixed(base_len)),
                    (base_len / 2, LenLie::Fixed(base_len)),
                    (base_len + 1, LenLie::Minus(1)),
                    (base_len + 2, LenLie::Fixed(base_len)),
                ];
                if big {
                    lies.retain(|(rl, l)| matches!(l, LenLie::Plus(1) | LenLie::Minus(1)) || (*rl == 0));
                }
                for (real_len, lie) in lies {
                    let run = |_ctx: &mut Ctx| {
                        let (mut a, _g) = build::<T>(c, r, &key_of);
                        let items = toks::<T>(real_len, 30);
                        let _ = guarded(|| insert_with(&mut a, axis, push, idx, Sup(SupIter::new(items, lie, true))));
                        (Some(a), vec![])
                    };
                    enumerate_faults(ctx, &FaultOp { opn, desc: format!("{}(idx={}, real len={}, len() lies {:?}) on {}x{} {}", opn, idx, real_len, lie, c, r, T::NAME), run: &run, kinds: &[Kind::Next, Kind::NextBack] });
                    ctx.count("lying_iterators", 1);
                }
            }
        }
    }
}

fn c11_clone_family<T: Elem + Clone + Ord + Default>(ctx: &mut Ctx, shape: (usize, usize)) {
    let (c, r) = shape;
    // constructors
    let run = |_ctx: &mut Ctx| {
        let x = guarded(|| TooDee::<T>::new(c, r));
        (x.ok(), vec![])
    };
    enumerate_faults(ctx, &FaultOp { opn: "new", desc: format!("new({},{})", c, r), run: &run, kinds: &[Kind::Default] });
    let run = |_ctx: &mut Ctx| {
        let seed = T::fresh(5);
        let x = guarded(move || TooDee::init(c, r, seed));
        (x.ok(), vec![])
    };
    enumerate_faults(ctx, &FaultOp { opn: "init", desc: format!("init({},{})", c, r), run: &run, kinds: &[Kind::Clone, Kind::Drop] });
    // clone: both the source and (if it exists) the clone must be fine; survivor = source
    let run = |ctx: &mut Ctx| {
        let (a, _g) = build::<T>(c, r, &key_of);
        let x = guarded(|| a.clone());
        if let Ok(b) = x {
            if validate(ctx, "clone", "the clone", &b, &HashSet::new()) {
                exercise(ctx, "clone", "the clone", b);
            }
        }
        (Some(a), vec![])
    };
    enumerate_faults(ctx, &FaultOp { opn: "clone", desc: format!("clone() of {}x{}", c, r), run: &run, kinds: &[Kind::Clone] });
    // Clone::clone_from into destinations that are smaller, equal and larger than the source
    for (dc, dr) in [(0usize, 0usize), (1, 1), (c, r), (c + 1, r), (r.max(1), c.max(1)), (c + 1, r + 2)] {
        let run = |_ctx: &mut Ctx| {
            let (src, _g) = build::<T>(c, r, &key_of);
            let (mut dst, _g2) = build::<T>(dc, dr, &key_of);
            if (dc + dr) % 2 == 1 {
                dst.reserve(c * r + 3);
            }
            let _ = guarded(|| dst.clone_from(&src));
            drop(src);
            (Some(dst), vec![])
        };
        enumerate_faults(ctx, &FaultOp { opn: "clone_from", desc: format!("clone_from({}x{}) into {}x{} {}", c, r, dc, dr, T::NAME), run: &run, kinds: &[Kind::Clone, Kind::Drop] });
    }
    // fill on owned, overwriting elements whose Drop may panic
    let run = |_ctx: &mut Ctx| {
        let (mut a, _g) = build::<T>(c, r, &key_of);
        let v = T::fresh(9);
        let _ = guarded(|| a.fill(v));
        (Some(a), vec![])
    };
    enumerate_faults(ctx, &FaultOp { opn: "fill", desc: format!("fill on owned {}x{}", c, r), run: &run, kinds: &[Kind::Clone, Kind::Drop] });
    // clone_from_slice / clone_from_toodee on owned
    let run = |_ctx: &mut Ctx| {
        let (mut a, _g) = build::<T>(c, r, &key_of);
        let src = toks::<T>(c * r, 40);
        let _ = guarded(|| a.clone_from_slice(&src));
        (Some(a), vec![])
    };
    enumerate_faults(ctx, &FaultOp { opn: "clone_from_slice", desc: format!("clone_from_slice on owned {}x{}", c, r), run: &run, kinds: &[Kind::Clone, Kind::Drop] });
    let run = |_ctx: &mut Ctx| {
        let (mut a, _g) = build::<T>(c, r, &key_of);
        let (src, _) = build::<T>(c, r, &key_of);
        let _ = guarded(|| a.clone_from_toodee(&src));
        (Some(a), vec![])
    };
    enumerate_faults(ctx, &FaultOp { opn: "clone_from_toodee", desc: format!("clone_from_toodee on owned {}x{}", c, r), run: &run, kinds: &[Kind::Clone, Kind::Drop] });
    // on a view of a larger parent: fill, clone_from_slice, clone_from_toodee; From<view>
    let (pc, pr) = (c + 2, r + 1);
    for which in 0..4 {
        let opn = ["fill", "clone_from_slice", "clone_from_toodee", "From<TooDeeView>"][which];
        let run = |ctx: &mut Ctx| {
            let (mut p, _g) = build::<T>(pc, pr, &key_of);
            let win = ((1, 0), (1 + c, r));
            match which {
                0 => {
                    let v = T::fresh(9);
                    let _ = guarded(|| p.view_mut(win.0, win.1).fill(v));
                }
                1 => {
                    let src = toks::<T>(c * r, 40);
                    let _ = guarded(|| p.view_mut(win.0, win.1).clone_from_slice(&src));
                }
                2 => {
                    let (src, _) = build::<T>(c + 1, r + 1, &key_of);
                    let sv = src.view((1, 1), (1 + c, 1 + r));
                    let _ = guarded(|| p.view_mut(win.0, win.1).clone_from_toodee(&sv));
                }
                _ => {
                    let x = guarded(|| TooDee::from(p.view(win.0, win.1)));
                    if let Ok(b) = x {
                        if validate(ctx, opn, "the copy", &b, &HashSet::new()) {
                            exercise(ctx, opn, "the copy", b);
                        }
                    }
                }
            }
            (Some(p), vec![])
        };
        enumerate_faults(ctx, &FaultOp { opn, desc: format!("{} on view {}x{} of {}x{}", opn, c, r, pc, pr), run: &run, kinds: &[Kind::Clone, Kind::Drop] });
    }
    // clear / drop with a panicking element Drop
    let run = |_ctx: &mut Ctx| {
        let (mut a, _g) = build::<T>(c, r, &key_of);
        let _ = guarded(|| a.clear());
        (Some(a), vec![])
    };
    enumerate_faults(ctx, &FaultOp { opn: "clear", desc: format!("clear on {}x{}", c, r), run: &run, kinds: &[Kind::Drop] });
    let run = |_ctx: &mut Ctx| {
        let (a, _g) = build::<T>(c, r, &key_of);
        let _ = guarded(move || drop(a));
        (None, vec![])
    };
    enumerate_faults(ctx, &FaultOp::<T> { opn: "drop", desc: format!("drop of {}x{}", c, r), run: &run, kinds: &[Kind::Drop] });
}

fn c11_drains<T: Elem + Clone + Ord + Default>(ctx: &mut Ctx, shape: (usize, usize), axis: Axis, big: bool) {
    let (c, r) = shape;
    let dim = if axis == Axis::Row { r } else { c };
    let line = if axis == Axis::Row { c } else { r };
    let idxs: Vec<usize> = if big && dim > 3 { vec![0, dim / 2, dim - 1] } else { (0..dim).collect() };
    for idx in idxs {
        for front in 0..=line.min(2) {
            for back in 0..=(line - front).min(2) {
                let run = |_ctx: &mut Ctx| {
                    let (mut a, _g) = build::<T>(c, r, &key_of);
                    let mut held = vec![];
                    let h = &mut held;
                    let _ = guarded(|| {
                        if axis == Axis::Row {
                            let mut d = a.remove_row(idx);
                            for _ in 0..front {
                                h.extend(d.next());
                            }
                            for _ in 0..back {
                                h.extend(d.next_back());
                            }
                        } else {
                            let mut d = a.remove_col(idx);
                            for _ in 0..front {
                                h.extend(d.next());
                            }
                            for _ in 0..back {
                                h.extend(d.next_back());
                            }
                        }
                    });
                    (Some(a), held)
                };
                let opn = if axis == Axis::Row { "remove_row" } else { "remove_col" };
                enumerate_faults(ctx, &FaultOp { opn, desc: format!("{}({}) on {}x{} taking {} front {} back then dropping the drain", opn, idx, c, r, front, back), run: &run, kinds: &[Kind::Drop] });
            }
        }
    }
}

fn c11_sorts<T: Elem + Clone + Ord + Default>(ctx: &mut Ctx, shape: (usize, usize)) {
    let (c, r) = shape;
    if c == 0 {
        return;
    }
    for var in ROW_SORTS.iter().chain(COL_SORTS.iter()) {
        let nlines = if var.by_row() { r } else { c };
        for idx in 0..nlines {
            for desc in [false, true] {
                let op = Op::Sort(*var, idx, desc);
                // owned and interior view
                for on_view in [false, true] {
                    let run = |_ctx: &mut Ctx| {
                        if on_view {
                            let (mut p, _g) = build::<T>(c + 2, r + 2, &key_of);
                            let _ = guarded(|| {
                                let mut v = p.view_mut((1, 1), (1 + c, 1 + r));
                                apply_real(&mut v, &op, &mut VecDeque::new());
                            });
                            (Some(p), vec![])
                        } else {
                            let (mut a, _g) = build::<T>(c, r, &key_of);
                            let _ = guarded(|| {
                                apply_real(&mut a, &op, &mut VecDeque::new());
                            });
                            (Some(a), vec![])
                        }
                    };
                    enumerate_faults(ctx, &FaultOp { opn: op.kind(), desc: format!("{:?} on {} {}x{}", op, if on_view { "view" } else { "owned" }, c, r), run: &run, kinds: &[Kind::Cmp, Kind::Key] });
                }
            }
        }
    }
}

pub fn run_c11(ctx: &mut Ctx) {
    let n = nsel(ctx, 2, 3, 3, 4, 6);
    for shape in shapes(n) {
        for axis in [Axis::Row, Axis::Col] {
            for ty in 0..3 {
                // iterator faults do not depend on element callbacks: run them for all three element kinds
                if ctx.case(|| format!("C11 insert axis={:?} shape={}x{} elem={}", axis, shape.0, shape.1, ["Tok", "Kv", "Zst"][ty])) {
                    match ty {
                        0 => c11_insert::<Tok>(ctx, shape, axis, false),
                        1 => c11_insert::<Kv>(ctx, shape, axis, false),
                        _ => c11_insert::<Zst>(ctx, shape, axis, false),
                    }
                }
            }
            if ctx.case(|| format!("C11 drains axis={:?} shape={}x{} elem=Tok", axis, shape.0, shape.1)) {
                c11_drains::<Tok>(ctx, shape, axis, false);
            }
            if ctx.case(|| format!("C11 drains axis={:?} shape={}x{} elem=Zst", axis, shape.0, shape.1)) {
                c11_drains::<Zst>(ctx, shape, axis, false);
            }
            if ctx.done() {
                return;
            }
        }
        if ctx.case(|| format!("C11 clone-family shape={}x{} elem=Tok", shape.0, shape.1)) {
            c11_clone_family::<Tok>(ctx, shape);
        }
        if ctx.case(|| format!("C11 clone-family shape={}x{} elem=Zst", shape.0, shape.1)) {
            c11_clone_family::<Zst>(ctx, shape);
        }
        if ctx.case(|| format!("C11 sorts shape={}x{} elem=Tok", shape.0, shape.1)) {
            c11_sorts::<Tok>(ctx, shape);
        }
        if ctx.case(|| format!("C11 sorts shape={}x{} elem=Kv", shape.0, shape.1)) {
            c11_sorts::<Kv>(ctx, shape);
        }
        if ctx.done() {
            return;
        }
    }
    // larger shapes (sampled indices): size-dependent paths under faults
    let bigs: Vec<(usize, usize)> = match ctx.scale {
        Scale::Native => vec![(9, 4), (4, 9), (33, 2), (2, 33), (17, 17), (40, 30)],
        Scale::Vg => vec![(9, 4)],
        Scale::Miri => vec![],
    };
    for shape in bigs {
        for axis in [Axis::Row, Axis::Col] {
            for ty in 0..3 {
                if ctx.case(|| format!("C11 big insert axis={:?} shape={}x{} elem={}", axis, shape.0, shape.1, ["Tok", "Kv", "Zst"][ty])) {
                    match ty {
                        0 => c11_insert::<Tok>(ctx, shape, axis, true),
                        1 => c11_insert::<Kv>(ctx, shape, axis, true),
                        _ => c11_insert::<Zst>(ctx, shape, axis, true),
                    }
                }
            }
            if ctx.case(|| format!("C11 big drains axis={:?} shape={}x{} elem=Tok", axis, shape.0, shape.1)) {
                c11_drains::<Tok>(ctx, shape, axis, true);
            }
            if ctx.done() {
                return;
            }
        }
    }
}

// ================================================================================================
// C12

#[derive(Clone, Copy, Debug, Hash, PartialEq, Eq)]
enum Leak {
    DrainRow,
    PopRow,
    DrainCol,
    PopCol,
    Rows,
    RowsMut,
    Col,
    ColMut,
    Cells,
    CellsMut,
    View,
    ViewMut,
    ViewMutRowsMut,
    IntoIter,
}
const LEAKS: [Leak; 14] = [Leak::DrainRow, Leak::PopRow, Leak::DrainCol, Leak::PopCol, Leak::Rows, Leak::RowsMut, Leak::Col, Leak::ColMut, Leak::Cells, Leak::CellsMut, Leak::View, Leak::ViewMut, Leak::ViewMutRowsMut, Leak::IntoIter];

fn take_then_forget<I: DoubleEndedIterator>(mut it: I, front: usize, back: usize, sink: &mut dyn FnMut(I::Item)) {
    for _ in 0..front {
        if let Some(x) = it.next() {
            sink(x)
        }
    }
    for _ in 0..back {
        if let Some(x) = it.next_back() {
            sink(x)
        }
    }
    std::mem::forget(it);
}

fn c12_case<T: Elem + Clone + Ord>(ctx: &mut Ctx, shape: (usize, usize), lk: Leak) {
    let (c, r) = shape;
    let sample = |n: usize| -> Vec<usize> {
        if n > 8 {
            vec![0, 1, n / 2, n - 1]
        } else {
            (0..n).collect()
        }
    };
    let idxs: Vec<usize> = match lk {
        Leak::DrainRow => sample(r),
        Leak::DrainCol | Leak::Col | Leak::ColMut => sample(c),
        _ => vec![0],
    };
    let n_items = match lk {
        Leak::DrainRow | Leak::PopRow => c,
        Leak::DrainCol | Leak::PopCol | Leak::Col | Leak::ColMut | Leak::Rows | Leak::RowsMut | Leak::ViewMutRowsMut => r,
        Leak::Cells | Leak::CellsMut | Leak::IntoIter => c * r,
        _ => 0,
    };
    for &idx in &idxs {
        for front in 0..=n_items.min(3) {
            for back in 0..=(n_items - front).min(2) {
                ledger_reset();
                kv_reset();
                fault_reset();
                let (mut a, g) = build::<T>(c, r, &key_of);
                let before: HashSet<u64> = g.uids().into_iter().collect();
                let mut held: Vec<T> = vec![];
                let what = format!("{:?}(idx={}) on {}x{} leaked after {} front / {} back ({})", lk, idx, c, r, front, back, T::NAME);
                let mut consumed: Option<TooDee<T>> = None;
                let res = guarded(|| {
                    match lk {
                        Leak::DrainRow => take_then_forget(a.remove_row(idx), front, back, &mut |x| held.push(x)),
                        Leak::PopRow => {
                            if let Some(d) = a.pop_row() {
                                take_then_forget(d, front, back, &mut |x| held.push(x))
                            }
                        }
                        Leak::DrainCol => take_then_forget(a.remove_col(idx), front, back, &mut |x| held.push(x)),
                        Leak::PopCol => {
                            if let Some(d) = a.pop_col() {
                                take_then_forget(d, front, back, &mut |x| held.push(x))
                            }
                        }
                        Leak::Rows => take_then_forget(a.rows(), front, back, &mut |_| {}),
                        Leak::RowsMut => take_then_forget(a.rows_mut(), front, back, &mut |_| {}),
                        Leak::Col => take_then_forget(a.col(idx), front, back, &mut |_| {}),
                        Leak::ColMut => take_then_forget(a.col_mut(idx), front, back, &mut |_| {}),
                        Leak::Cells => take_then_forget(a.cells(), front, back, &mut |_| {}),
                        Leak::CellsMut => take_then_forget(a.cells_mut(), front, back, &mut |_| {}),
                        Leak::View => std::mem::forget(a.view((0, 0), (c, r))),
                        Leak::ViewMut => std::mem::forget(a.view_mut((0, 0), (c, r))),
                        Leak::ViewMutRowsMut => {
                            let mut v = a.view_mut((0, 0), (c, r));
                            take_then_forget(v.rows_mut(), front, back, &mut |_| {});
                            std::mem::forget(v);
                        }
                        Leak::IntoIter => {
                            let b = std::mem::take(&mut a);
                            take_then_forget(b.into_iter(), front, back, &mut |x| held.push(x));
                        }
                    }
                });
                let _ = &mut consumed;
                ctx.count("calls", 1);
                ctx.count("leaks_injected", 1);
                if let Err(m) = res {
                    ctx.violation("leak", "valid-call-panicked", format!("{}: {}", what, m));
                    std::mem::forget(a);
                    continue;
                }
                let held_ids: HashSet<u64> = held.iter().map(|t| t.uid()).collect();
                let mut ok = validate(ctx, "leak", &what, &a, &held_ids);
                if ok && !T::IS_ZST {
                    // an element handed to the caller must be gone from the array - also for element
                    // types without drop glue, where the ledger cannot see a duplicated move-only value
                    let mut seen = HashSet::new();
                    for e in a.data() {
                        if held_ids.contains(&e.uid()) {
                            ctx.violation("leak", "survivor:duplicated-element", format!("{}: id {} was yielded to the caller and is still in the array", what, e.uid()));
                            ok = false;
                            break;
                        }
                        if !seen.insert(e.uid()) {
                            ctx.violation("leak", "survivor:duplicated-element", format!("{}: id {} occurs twice in the array", what, e.uid()));
                            ok = false;
                            break;
                        }
                    }
                }
                if ok && !T::IS_ZST {
                    // no element may have appeared from nowhere
                    for e in a.data() {
                        if !before.contains(&e.uid()) {
                            ctx.violation("leak", "survivor:foreign-element", format!("{}: id {}", what, e.uid()));
                            ok = false;
                        }
                    }
                }
                // borrow-only values (iterators, views) must leave the array untouched
                if ok && matches!(lk, Leak::Rows | Leak::RowsMut | Leak::Col | Leak::ColMut | Leak::Cells | Leak::CellsMut | Leak::View | Leak::ViewMut | Leak::ViewMutRowsMut) {
                    let mut g2 = g.clone();
                    ok &= check_shape(ctx, "leak", &a, &mut g2);
                }
                if T::OWNS && !T::IS_ZST {
                    for h in &held {
                        if !is_live(h.uid()) {
                            ctx.violation("leak", "ledger:held-not-live", format!("{}: id {}", what, h.uid()));
                            ok = false;
                        }
                    }
                }
                drop(held);
                ok &= check_double_drops(ctx, "leak");
                if ok {
                    ctx.detail(|| format!("{}: survivor size {:?}", what, a.size()));
                    ctx.seen("survivor_sizes", (lk, shape, a.size()));
                    exercise(ctx, "leak", &what, a);
                    ctx.nontrivial(("C12", lk, shape, idx, front, back, T::NAME));
                } else {
                    std::mem::forget(a);
                }
                ledger_counts(ctx);
            }
        }
    }
}

pub fn run_c12(ctx: &mut Ctx) {
    let n = nsel(ctx, 2, 3, 3, 4, 8);
    for shape in shapes(n) {
        if shape.0 == 0 {
            continue;
        }
        for lk in LEAKS {
            for ty in 0..3 {
                // Kv has no drop glue (needs_drop == false): code paths specialised on that must hold too
                if ctx.case(|| format!("C12 leak={:?} shape={}x{} elem={}", lk, shape.0, shape.1, ["Tok", "Zst", "Kv"][ty])) {
                    match ty {
                        0 => c12_case::<Tok>(ctx, shape, lk),
                        1 => c12_case::<Zst>(ctx, shape, lk),
                        _ => c12_case::<Kv>(ctx, shape, lk),
                    }
                }
                if ctx.done() {
                    return;
                }
            }
        }
    }
    if ctx.scale == Scale::Native {
        for shape in [(9, 4), (4, 9), (33, 2), (2, 33), (17, 17), (40, 30)] {
            for lk in LEAKS {
                for ty in 0..3 {
                    if ctx.case(|| format!("C12 big leak={:?} shape={}x{} elem={}", lk, shape.0, shape.1, ["Tok", "Zst", "Kv"][ty])) {
                        match ty {
                            0 => c12_case::<Tok>(ctx, shape, lk),
                            1 => c12_case::<Zst>(ctx, shape, lk),
                            _ => c12_case::<Kv>(ctx, shape, lk),
                        }
                    }
                    if ctx.done() {
                        return;
                    }
                }
            }
        }
    }
}
