use crate::ctx::Ctx;
pub fn run_c11(_ctx: &mut Ctx) { unimplemented!() }
pub fn run_c12(_ctx: &mut Ctx) { unimplemented!() }
