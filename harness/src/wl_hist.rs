use crate::ctx::Ctx;
pub fn run_c01(_ctx: &mut Ctx) { unimplemented!() }
pub fn run_c05(_ctx: &mut Ctx) { unimplemented!() }
