//! C01 (dimensions always agree with contents) and C05 (every element dropped exactly once):
//! a history interpreter drives a real `TooDee<T>` and the rows-of-cells model side by side and
//! checks the shape invariant, the cells and the ledger after every step.
use crate::ctx::*;
use crate::elem::*;
use crate::model::*;
use crate::monitor::*;
use crate::ops::*;
use crate::recv::Win;
use crate::wl_insrem::{do_insert, drive_drain, Axis, ITER_KINDS};
use std::collections::{HashSet, VecDeque};
use toodee::*;

#[derive(Clone, Debug, Hash, PartialEq, Eq)]
pub enum Step {
    New(usize, usize),
    Init(usize, usize),
    FromVec(usize, usize, usize),
    FromBox(usize, usize, usize),
    Default,
    WithCapacity(usize),
    CloneSelf,
    /// `a.clone_from(&b)` with b a fresh array of the given shape
    CloneFrom(usize, usize),
    FromView(Win, bool),
    Ins { axis: Axis, idx: usize, len: usize, push: bool, ik: usize },
    Rem { axis: Axis, idx: usize, pop: bool, front: usize, back: usize, inter: usize },
    Clear,
    SwapDims,
    Reserve(usize),
    ReserveExact(usize),
    Shrink,
    InPlace(Op),
    ViewOp(Win, Op),
    DataMut(usize),
    /// insert with an iterator that lies about its length (C01 histories only): whatever happens, the
    /// shape invariant must hold afterwards; the model is then re-synchronised from the array
    InsLying { axis: Axis, idx: usize, real_len: usize, lie: u8, push: bool },
    /// C05 only: convert and rebuild (Vec::from / Box::from / into_iter)
    RoundTripVec,
    RoundTripBox,
    IntoIterPartial(usize, usize),
}

impl Step {
    pub fn kind(&self) -> &'static str {
        match self {
            Step::New(..) => "new",
            Step::Init(..) => "init",
            Step::FromVec(..) => "from_vec",
            Step::FromBox(..) => "from_box",
            Step::Default => "default",
            Step::WithCapacity(_) => "with_capacity",
            Step::CloneSelf => "clone",
            Step::CloneFrom(..) => "clone_from",
            Step::FromView(_, false) => "From<TooDeeView>",
            Step::FromView(_, true) => "From<TooDeeViewMut>",
            Step::Ins { axis: Axis::Row, push: false, .. } => "insert_row",
            Step::Ins { axis: Axis::Row, push: true, .. } => "push_row",
            Step::Ins { axis: Axis::Col, push: false, .. } => "insert_col",
            Step::Ins { axis: Axis::Col, push: true, .. } => "push_col",
            Step::Rem { axis: Axis::Row, pop: false, .. } => "remove_row",
            Step::Rem { axis: Axis::Row, pop: true, .. } => "pop_row",
            Step::Rem { axis: Axis::Col, pop: false, .. } => "remove_col",
            Step::Rem { axis: Axis::Col, pop: true, .. } => "pop_col",
            Step::Clear => "clear",
            Step::SwapDims => "swap_dimensions",
            Step::Reserve(_) => "reserve",
            Step::ReserveExact(_) => "reserve_exact",
            Step::Shrink => "shrink_to_fit",
            Step::InsLying { axis: Axis::Row, .. } => "insert_row(lying iterator)",
            Step::InsLying { axis: Axis::Col, .. } => "insert_col(lying iterator)",
            Step::InPlace(op) => op.kind(),
            Step::ViewOp(_, _) => "view_mut-op",
            Step::DataMut(_) => "data_mut",
            Step::RoundTripVec => "Vec::from",
            Step::RoundTripBox => "Box::from",
            Step::IntoIterPartial(..) => "into_iter",
        }
    }
}

pub struct Hist<T: Elem> {
    pub a: TooDee<T>,
    pub g: Grid,
    pub steps_done: usize,
    pub passed_empty: u64,
    pub rejected: u64,
    /// C05 mode: steps the model would reject are skipped, never executed (keeps histories panic-free)
    pub valid_only: bool,
}

#[derive(PartialEq, Eq, Clone, Copy, Debug)]
pub enum StepOut {
    Accepted,
    Rejected,
    Failed,
    Skipped,
}

fn fresh_line<T: Elem>(len: usize) -> (Vec<T>, Vec<Mc>) {
    let items: Vec<T> = (0..len).map(|i| T::fresh(20 + (i % 4) as u32)).collect();
    let line = items.iter().map(mc).collect();
    (items, line)
}

fn freshen(g: &mut Grid) {
    for row in &mut g.cells {
        for c in row.iter_mut() {
            c.uid = FRESH;
        }
    }
}

impl<T: Elem + Clone + Ord + Default> Hist<T> {
    pub fn new() -> Hist<T> {
        Hist { a: TooDee::default(), g: Grid::empty(), steps_done: 0, passed_empty: 0, rejected: 0, valid_only: false }
    }

    /// Execute one step on both sides and check everything. Returns the outcome.
    pub fn step(&mut self, ctx: &mut Ctx, st: &Step) -> StepOut {
        let opn = st.kind();
        let before_size = self.g.size();
        let what = format!("step {} {:?} at size {:?} ({})", self.steps_done, st, before_size, T::NAME);
        self.steps_done += 1;
        ctx.count("steps", 1);
        let keep = T::CLONE_KEEPS_UID;
        // (model verdict, real result)
        let mut newg = self.g.clone();
        let verdict: MRes<()>;
        let res: Result<(), String>;
        let mut held: Vec<T> = vec![];
        match st {
            Step::New(c, r) | Step::Init(c, r) => {
                let ok = c.checked_mul(*r).map_or(false, |p| p <= 4096) && ((*c == 0) == (*r == 0));
                let is_new = matches!(st, Step::New(..));
                let seed = T::fresh(33);
                let sm = mc(&seed);
                verdict = if ok {
                    let cell = if is_new { Mc { uid: FRESH, key: 0 } } else if keep { sm } else { Mc { uid: FRESH, key: sm.key } };
                    newg = if *c == 0 { Grid::empty() } else { Grid::from_flat(*c, *r, &vec![cell; c * r]) };
                    Ok(())
                } else {
                    Err(())
                };
                if verdict.is_err() && self.valid_only {
                    return StepOut::Skipped;
                }
                // never ask for a huge accepted allocation
                if !ok && c.checked_mul(*r).map_or(false, |p| p > 4096) && ((*c == 0) == (*r == 0)) {
                    return StepOut::Rejected;
                }
                let r2 = catches(|| if is_new { TooDee::<T>::new(*c, *r) } else { TooDee::init(*c, *r, seed) });
                res = r2.map(|n| self.a = n);
            }
            Step::FromVec(c, r, len) | Step::FromBox(c, r, len) => {
                let ok = c.checked_mul(*r) == Some(*len) && ((*c == 0) == (*r == 0));
                let (items, line) = fresh_line::<T>(*len);
                verdict = if ok {
                    newg = if *c == 0 { Grid::empty() } else { Grid::from_flat(*c, *r, &line) };
                    Ok(())
                } else {
                    Err(())
                };
                if verdict.is_err() && self.valid_only {
                    return StepOut::Skipped;
                }
                let is_vec = matches!(st, Step::FromVec(..));
                let r2 = catches(|| if is_vec { TooDee::from_vec(*c, *r, items) } else { TooDee::from_box(*c, *r, items.into_boxed_slice()) });
                res = r2.map(|n| self.a = n);
            }
            Step::Default => {
                newg = Grid::empty();
                verdict = Ok(());
                self.a = TooDee::default();
                res = Ok(());
            }
            Step::WithCapacity(n) => {
                newg = Grid::empty();
                verdict = Ok(());
                let r2 = catches(|| TooDee::<T>::with_capacity(*n));
                res = r2.map(|n2| {
                    if n2.capacity() < *n {
                        ctx.violation(opn, "capacity-too-small", what.clone());
                    }
                    self.a = n2
                });
            }
            Step::CloneSelf => {
                if !keep {
                    freshen(&mut newg);
                }
                verdict = Ok(());
                let r2 = catches(|| self.a.clone());
                res = r2.map(|n| self.a = n);
            }
            Step::CloneFrom(c, r) => {
                let (items, line) = fresh_line::<T>(c * r);
                let src = TooDee::from_vec(if *r == 0 { 0 } else { *c }, if *c == 0 { 0 } else { *r }, if *c == 0 || *r == 0 { drop(items); vec![] } else { items });
                newg = if src.num_cols() == 0 { Grid::empty() } else { Grid::from_flat(*c, *r, &line) };
                if !keep {
                    freshen(&mut newg);
                }
                verdict = Ok(());
                let a = &mut self.a;
                res = catches(|| a.clone_from(&src));
                drop(src);
            }
            Step::FromView(win, m) => {
                verdict = match self.g.window(win.0, win.1) {
                    Ok(w) => {
                        newg = w;
                        if !keep {
                            freshen(&mut newg);
                        }
                        Ok(())
                    }
                    Err(()) => Err(()),
                };
                if verdict.is_err() && self.valid_only {
                    return StepOut::Skipped;
                }
                let a = &mut self.a;
                let r2 = catches(|| if *m { TooDee::from(a.view_mut(win.0, win.1)) } else { TooDee::from(a.view(win.0, win.1)) });
                res = r2.map(|n| self.a = n);
            }
            Step::Ins { axis, idx, len, push, ik } => {
                let (items, line) = fresh_line::<T>(*len);
                verdict = if *axis == Axis::Row { newg.insert_row(*idx, &line) } else { newg.insert_col(*idx, &line) };
                if verdict.is_err() && self.valid_only {
                    return StepOut::Skipped;
                }
                let a = &mut self.a;
                res = catches(|| do_insert(a, *axis, *push, *idx, items, *ik));
            }
            Step::InsLying { axis, idx, real_len, lie, push } => {
                if self.valid_only {
                    return StepOut::Skipped;
                }
                let lie = [LenLie::Plus(1), LenLie::Minus(1), LenLie::Fixed(0), LenLie::Fixed(usize::MAX), LenLie::Flicker, LenLie::Plus(2)][*lie as usize % 6];
                let (items, _line) = fresh_line::<T>(*real_len);
                let a = &mut self.a;
                let it = Sup(SupIter::new(items, lie, false));
                let r = catches(|| match (axis, push) {
                    (Axis::Row, false) => a.insert_row(*idx, it),
                    (Axis::Row, true) => a.push_row(it),
                    (Axis::Col, false) => a.insert_col(*idx, it),
                    (Axis::Col, true) => a.push_col(it),
                });
                ctx.count(if r.is_ok() { "lying_accepted" } else { "lying_panicked" }, 1);
                if let Err(e) = crate::wl_serde::shape_ok(&self.a) {
                    ctx.violation(opn, "shape:after-lying-iterator", format!("{}: {}", what, e));
                    return StepOut::Failed;
                }
                // re-synchronise the model with whatever valid state the array is in now
                self.g = read_ops::<T, _>(&self.a).expect("harness: shape_ok array must be readable");
                let ok = check_tokens(ctx, opn, &self.a, &HashSet::new()) & check_double_drops(ctx, opn);
                self.rejected += 1; // a leak is possible: the end-of-history leak check does not apply
                return if ok { StepOut::Accepted } else { StepOut::Failed };
            }
            Step::Rem { axis, idx, pop, front, back, inter } => {
                let dim = if *axis == Axis::Row { self.g.rows } else { self.g.cols };
                if *pop && dim == 0 {
                    // pop on empty: None, nothing changes
                    verdict = Ok(());
                    let none = if *axis == Axis::Row { self.a.pop_row().is_none() } else { self.a.pop_col().is_none() };
                    if !none {
                        ctx.violation(opn, "pop-on-empty-not-none", what.clone());
                    }
                    res = Ok(());
                } else {
                    let idx = &(if *pop { dim - 1 } else { *idx });
                    let line_res = if *axis == Axis::Row { newg.remove_row(*idx) } else { newg.remove_col(*idx) };
                    let a = &mut self.a;
                    match line_res {
                        Ok(line) => {
                            verdict = Ok(());
                            let h = &mut held;
                            let f = (*front).min(line.len());
                            let b = (*back).min(line.len() - f);
                            res = catches(|| {
                                let ok = match (axis, pop) {
                                    (Axis::Row, false) => drive_drain(ctx, opn, a.remove_row(*idx), &line, f, b, *inter, h),
                                    (Axis::Row, true) => drive_drain(ctx, opn, a.pop_row().expect("harness: pop_row None on non-empty"), &line, f, b, *inter, h),
                                    (Axis::Col, false) => drive_drain(ctx, opn, a.remove_col(*idx), &line, f, b, *inter, h),
                                    (Axis::Col, true) => drive_drain(ctx, opn, a.pop_col().expect("harness: pop_col None on non-empty"), &line, f, b, *inter, h),
                                };
                                let _ = ok;
                            });
                        }
                        Err(()) => {
                            if self.valid_only {
                                return StepOut::Skipped;
                            }
                            verdict = Err(());
                            res = catches(|| {
                                if *axis == Axis::Row {
                                    let _ = a.remove_row(*idx).len();
                                } else {
                                    let _ = a.remove_col(*idx).len();
                                }
                            });
                        }
                    }
                }
            }
            Step::Clear => {
                newg.clear();
                verdict = Ok(());
                let a = &mut self.a;
                res = catches(|| a.clear());
            }
            Step::SwapDims => {
                newg.swap_dimensions();
                verdict = Ok(());
                self.a.swap_dimensions();
                res = Ok(());
            }
            Step::Reserve(n) | Step::ReserveExact(n) => {
                verdict = Ok(());
                let a = &mut self.a;
                let exact = matches!(st, Step::ReserveExact(_));
                res = catches(|| if exact { a.reserve_exact(*n) } else { a.reserve(*n) });
                if res.is_ok() && !T::IS_ZST && self.a.capacity() < self.a.data().len() + n {
                    ctx.violation(opn, "capacity-too-small", what.clone());
                }
            }
            Step::Shrink => {
                verdict = Ok(());
                self.a.shrink_to_fit();
                res = Ok(());
            }
            Step::DataMut(i) => {
                let n = self.g.len();
                if n == 0 {
                    verdict = Ok(());
                    res = Ok(());
                    let _ = self.a.data_mut().len();
                } else {
                    let i = i % n;
                    let v = T::fresh(44);
                    newg.cells[i / self.g.cols][i % self.g.cols] = mc(&v);
                    verdict = Ok(());
                    if i % 2 == 0 {
                        self.a.data_mut()[i] = v;
                    } else {
                        let s: &mut [T] = self.a.as_mut();
                        s[i] = v;
                    }
                    res = Ok(());
                }
            }
            Step::InPlace(op) | Step::ViewOp(_, op) => {
                let win = match st {
                    Step::ViewOp(w, _) => Some(*w),
                    _ => None,
                };
                let mut wg = match win {
                    Some(w) => self.g.window(w.0, w.1).expect("harness: ViewOp windows are valid"),
                    None => self.g.clone(),
                };
                let (wc, wr) = wg.size();
                let nv = (wc.max(1) * wr.max(1) + 3).max(wc + 3) * (wr + 3) + 2;
                let nv = if matches!(op, Op::CopyFromToodee(..) | Op::CloneFromToodee(..) | Op::CopyFromSlice(_) | Op::CloneFromSlice(_) | Op::RowsMut(_) | Op::CellsMut(_) | Op::ColMut(..)) { nv } else { 1 };
                let vals: Vec<T> = (0..nv).map(|i| T::fresh(60 + (i % 3) as u32)).collect();
                let mut vm: VecDeque<Mc> = vals.iter().map(mc).collect();
                let mut vals: VecDeque<T> = vals.into();
                verdict = match apply_model(&mut wg, op, &mut vm, keep) {
                    Ok(_) => {
                        match win {
                            Some(w) => newg.write_window(w.0, &wg),
                            None => newg = wg,
                        }
                        Ok(())
                    }
                    Err(()) => Err(()),
                };
                if verdict.is_err() && self.valid_only {
                    return StepOut::Skipped;
                }
                let a = &mut self.a;
                res = catches(|| match win {
                    Some(w) => {
                        let mut v = a.view_mut(w.0, w.1);
                        apply_real(&mut v, op, &mut vals);
                    }
                    None => {
                        apply_real(a, op, &mut vals);
                    }
                });
            }
            Step::RoundTripVec | Step::RoundTripBox => {
                verdict = Ok(());
                let (c, r) = self.a.size();
                let a = std::mem::take(&mut self.a);
                let is_vec = matches!(st, Step::RoundTripVec);
                res = catches(|| {
                    if is_vec {
                        let v: Vec<T> = a.into();
                        TooDee::from_vec(c, r, v)
                    } else {
                        let b: Box<[T]> = a.into();
                        TooDee::from_box(c, r, b)
                    }
                })
                .map(|n| self.a = n);
            }
            Step::IntoIterPartial(f, b) => {
                // consume the array: take f from the front, b from the back, drop the iterator
                verdict = Ok(());
                let flat = self.g.flat();
                newg = Grid::empty();
                let a = std::mem::take(&mut self.a);
                let h = &mut held;
                res = catches(|| {
                    let it = a.into_iter();
                    let line = flat;
                    let ff = (*f).min(line.len());
                    let bb = (*b).min(line.len() - ff);
                    drive_drain(ctx, "into_iter", it, &line, ff, bb, (ff * 7 + bb * 3) % 24, h);
                });
            }
        }
        // ---- judge
        let out = match (&verdict, &res) {
            (Ok(()), Ok(())) => {
                self.g = newg;
                StepOut::Accepted
            }
            (Err(()), Err(_)) => {
                self.rejected += 1;
                ctx.count("rejected", 1);
                StepOut::Rejected
            }
            (Ok(()), Err(m)) => {
                if m.starts_with("harness:") {
                    panic!("{}", m);
                }
                ctx.violation(opn, "valid-call-panicked", format!("{}: {}", what, m));
                StepOut::Failed
            }
            (Err(()), Ok(())) => {
                ctx.violation(opn, "invalid-call-accepted", format!("{} -> size {:?}", what, self.a.size()));
                StepOut::Failed
            }
        };
        // quiescent-point checks (also after rejected and failed steps: the array must stay usable)
        let held_ids: HashSet<u64> = held.iter().map(|t| t.uid()).collect();
        let mut ok = true;
        if out != StepOut::Failed {
            ok &= check_shape(ctx, opn, &self.a, &mut self.g);
        }
        ok &= check_tokens(ctx, opn, &self.a, &held_ids);
        if T::OWNS && !T::IS_ZST {
            for h in &held {
                if !is_live(h.uid()) {
                    ctx.violation(opn, "ledger:held-not-live", format!("{}: yielded id {} already dropped", what, h.uid()));
                    ok = false;
                }
            }
        }
        drop(held);
        ok &= check_double_drops(ctx, opn);
        if self.g.len() == 0 {
            self.passed_empty += 1;
        }
        ctx.max("max_cells", self.g.len() as u64);
        if !ok {
            return StepOut::Failed;
        }
        if out != StepOut::Failed {
            ctx.seen("transitions", (before_size, opn, self.g.size(), out == StepOut::Accepted));
            ctx.detail(|| format!("{} -> {:?}, size now {:?}", what, out, self.g.size()));
        }
        out
    }
}

// ------------------------------------------------------------------------------------------------
// random step generation

fn rand_walk(rng: &mut Rng) -> Walk {
    *rng.pick(&WALKS)
}

fn rand_window(rng: &mut Rng, c: usize, r: usize) -> Win {
    let s0 = rng.below(c + 1);
    let s1 = rng.below(r + 1);
    ((s0, s1), (rng.range(s0, c), rng.range(s1, r)))
}

/// A (mostly valid) in-place operation for a receiver of size (c, r).
fn rand_op(rng: &mut Rng, c: usize, r: usize, invalid: bool, copy_ok: bool) -> Op {
    let bump = |rng: &mut Rng, d: usize| if invalid && rng.chance(1, 3) { d + rng.below(2) } else if d == 0 { 0 } else { rng.below(d) };
    loop {
        let k = rng.below(20);
        let op = match k {
            0 => Op::Fill,
            1 => Op::SetCoord(bump(rng, c), bump(rng, r)),
            2 => Op::SetRowCol(bump(rng, c), bump(rng, r)),
            3 => Op::Swap((bump(rng, c), bump(rng, r)), (bump(rng, c), bump(rng, r))),
            4 => Op::SwapRows(bump(rng, r), bump(rng, r)),
            5 => Op::SwapCols(bump(rng, c), bump(rng, c)),
            6 => Op::RowPair(bump(rng, r), bump(rng, r)),
            7 => Op::RowsMut(rand_walk(rng)),
            8 => Op::ColMut(bump(rng, c), rand_walk(rng)),
            9 => Op::CellsMut(rand_walk(rng)),
            10 => Op::CloneFromSlice(if invalid { rng.below(3) as isize - 1 } else { 0 }),
            11 => Op::CloneFromToodee(*rng.pick(&[SrcKind::Owned, SrcKind::View, SrcKind::ViewMut]), if invalid && rng.chance(1, 3) { *rng.pick(&[SizeRel::ColsPlus1, SizeRel::RowsMinus1]) } else { SizeRel::Same }),
            12 => {
                let v = *rng.pick(&[SortVar::RowOrd, SortVar::ByRow, SortVar::ByRowKey]);
                Op::Sort(v, bump(rng, r), rng.chance(1, 2))
            }
            13 => {
                let v = *rng.pick(&[SortVar::ColOrd, SortVar::ByCol, SortVar::ByColKey]);
                Op::Sort(v, bump(rng, c), rng.chance(1, 2))
            }
            14 => Op::Translate(if invalid && rng.chance(1, 4) { c + 1 } else { rng.below(c + 1) }, if invalid && rng.chance(1, 4) { r + 1 } else { rng.below(r + 1) }),
            15 => Op::FlipRows,
            16 => Op::FlipCols,
            17 => Op::CopyFromSlice(if invalid { rng.below(3) as isize - 1 } else { 0 }),
            18 => Op::CopyFromToodee(*rng.pick(&[SrcKind::Owned, SrcKind::View, SrcKind::ViewMut]), if invalid && rng.chance(1, 3) { *rng.pick(&[SizeRel::RowsPlus1, SizeRel::RowsMinus1, SizeRel::ColsMinus1]) } else { SizeRel::Same }),
            _ => {
                let (s, e) = rand_window(rng, c, r);
                let w = e.0 - s.0;
                let h = e.1 - s.1;
                let d0 = if invalid && rng.chance(1, 4) { c - w + 1 } else { rng.below(c - w + 1) };
                let d1 = if invalid && rng.chance(1, 4) { r - h + 1 } else { rng.below(r - h + 1) };
                Op::CopyWithin(s, e, (d0, d1))
            }
        };
        if op.copy_only() && !copy_ok {
            continue;
        }
        return op;
    }
}

pub fn rand_step(rng: &mut Rng, g: &Grid, invalid: bool, copy_ok: bool, conversions: bool, maxdim: usize) -> Step {
    let (c, r) = g.size();
    let cells = c * r;
    let big = c >= maxdim || r >= maxdim || cells > maxdim * maxdim / 2;
    let ik = rng.below(ITER_KINDS);
    let roll = rng.below(100);
    let bad = invalid && rng.chance(1, 6);
    // structural operations dominate
    if invalid && roll < 28 && !big && rng.chance(1, 12) {
        let axis = if rng.chance(1, 2) { Axis::Row } else { Axis::Col };
        let (dim, line) = if axis == Axis::Row { (r, c) } else { (c, r) };
        let push = rng.chance(1, 3);
        let real_len = if c == 0 { rng.below(4) } else { match rng.below(4) { 0 => line.saturating_sub(1), 1 => line + 1, _ => line } };
        return Step::InsLying { axis, idx: if push { dim } else { rng.below(dim + 1) }, real_len, lie: rng.below(6) as u8, push };
    }
    if roll < 14 && !big {
        let idx = if bad { r + 1 + rng.below(2) } else { rng.below(r + 1) };
        let len = if c == 0 { rng.below(maxdim.min(4) + 1) } else if invalid && rng.chance(1, 6) { c + 1 - 2 * rng.below(2) } else { c };
        let push = rng.chance(1, 3);
        return Step::Ins { axis: Axis::Row, idx: if push { r } else { idx }, len, push, ik };
    }
    if roll < 28 && !big {
        let idx = if bad { c + 1 + rng.below(2) } else { rng.below(c + 1) };
        let len = if r == 0 { rng.below(maxdim.min(4) + 1) } else if invalid && rng.chance(1, 6) { r + 1 - 2 * rng.below(2) } else { r };
        let push = rng.chance(1, 3);
        return Step::Ins { axis: Axis::Col, idx: if push { c } else { idx }, len, push, ik };
    }
    if roll < 44 || (big && roll < 70) {
        let axis = if rng.chance(1, 2) { Axis::Row } else { Axis::Col };
        let dim = if axis == Axis::Row { r } else { c };
        let line = if axis == Axis::Row { c } else { r };
        let pop = rng.chance(1, 3);
        if dim == 0 && !pop && !invalid {
            return Step::Rem { axis, idx: 0, pop: true, front: 0, back: 0, inter: 0 };
        }
        let idx = if pop { dim.saturating_sub(1) } else if bad || dim == 0 { dim + rng.below(2) } else { rng.below(dim) };
        let front = rng.below(line + 1);
        let back = rng.below(line - front + 1);
        return Step::Rem { axis, idx, pop, front, back, inter: rng.below(24) };
    }
    match roll {
        44..=46 => Step::Clear,
        47..=50 => Step::SwapDims,
        51 => Step::Reserve(rng.below(20)),
        52 => Step::ReserveExact(rng.below(20)),
        53..=54 => Step::Shrink,
        55..=56 => Step::DataMut(rng.below(1000)),
        57 => Step::Default,
        58 => Step::WithCapacity(rng.below(30)),
        59 => {
            let (nc, nr) = if bad { (*rng.pick(&[0usize, 3, usize::MAX]), *rng.pick(&[2usize, 0, usize::MAX / 2 + 1])) } else if rng.chance(1, 5) { (0, 0) } else { (rng.range(1, 4), rng.range(1, 4)) };
            if rng.chance(1, 2) {
                Step::New(nc, nr)
            } else {
                Step::Init(nc, nr)
            }
        }
        60..=61 => {
            let (nc, nr) = if rng.chance(1, 6) { (0, 0) } else { (rng.range(1, 4), rng.range(1, 4)) };
            let len = if bad { nc * nr + 1 } else { nc * nr };
            let (nc, nr) = if invalid && rng.chance(1, 10) { (nc, 0) } else { (nc, nr) };
            let len = if nr == 0 && nc != 0 && rng.chance(1, 2) { 0 } else { len };
            if rng.chance(1, 2) {
                Step::FromVec(nc, nr, len)
            } else {
                Step::FromBox(nc, nr, len)
            }
        }
        62 => Step::CloneSelf,
        63 => Step::CloneFrom(rng.below(5), rng.below(5)),
        64..=65 => Step::FromView(rand_window(rng, c, r), rng.chance(1, 2)),
        66..=69 if conversions => {
            if rng.chance(1, 2) {
                Step::RoundTripVec
            } else {
                Step::RoundTripBox
            }
        }
        70..=84 => Step::InPlace(rand_op(rng, c, r, invalid, copy_ok)),
        _ => {
            let w = rand_window(rng, c, r);
            let (wc, wr) = ((w.1).0 - (w.0).0, (w.1).1 - (w.0).1);
            let (wc, wr) = if wc == 0 || wr == 0 { (0, 0) } else { (wc, wr) };
            Step::ViewOp(w, rand_op(rng, wc, wr, invalid, copy_ok))
        }
    }
}

pub fn rand_step_pub(rng: &mut Rng, g: &Grid, maxdim: usize) -> Step {
    rand_step(rng, g, false, true, false, maxdim)
}

fn random_history<T: Elem + Clone + Ord + Default>(ctx: &mut Ctx, prop: &'static str, seed_mix: u64, nsteps: usize, invalid: bool, conversions: bool, maxdim: usize, start: Option<(usize, usize)>) {
    ledger_reset();
    kv_reset();
    fault_reset();
    let mut rng = Rng::from_parts(ctx.seed, seed_mix, 1);
    let mut h = Hist::<T>::new();
    h.valid_only = !invalid;
    let copy_ok = T::CLONE_KEEPS_UID && !T::IS_ZST;
    let mut all_ok = true;
    let mut moved = false;
    if let Some((c, r)) = start {
        // exact-capacity start from a given (large) shape
        all_ok &= h.step(ctx, &Step::FromBox(c, r, c * r)) != StepOut::Failed;
    }
    for _ in 0..nsteps {
        if !all_ok {
            break;
        }
        let st = rand_step(&mut rng, &h.g, invalid, copy_ok, conversions, maxdim);
        let out = h.step(ctx, &st);
        if out == StepOut::Skipped {
            ctx.count("skipped_invalid", 1);
            continue;
        }
        ctx.count("calls", 1);
        if out == StepOut::Failed {
            all_ok = false;
            break;
        }
        if out == StepOut::Accepted && h.g.len() > 0 {
            moved = true;
        }
    }
    ctx.count("passed_through_empty", h.passed_empty);
    if conversions && all_ok {
        // end of a panic-free history: consume the array one way or another, then nothing may be alive
        let f = rng.below(3);
        let b = rng.below(3);
        if rng.chance(1, 2) {
            all_ok &= h.step(ctx, &Step::IntoIterPartial(f, b)) != StepOut::Failed;
        }
    }
    let rejected = h.rejected;
    drop(h);
    all_ok &= check_double_drops(ctx, "drop");
    if all_ok && rejected == 0 {
        all_ok &= check_no_leak(ctx, "end-of-history");
    }
    ledger_counts(ctx);
    ctx.count("histories", 1);
    if all_ok && moved {
        ctx.nontrivial((prop, T::NAME, seed_mix));
    }
}

// ------------------------------------------------------------------------------------------------
// bounded-exhaustive histories over a reduced structural alphabet

fn reduced_alphabet(d: usize) -> Vec<Step> {
    let mut v = vec![];
    for axis in [Axis::Row, Axis::Col] {
        for idx in 0..=d + 1 {
            for len in 0..=d + 1 {
                v.push(Step::Ins { axis, idx, len, push: false, ik: (idx + len) % ITER_KINDS });
            }
        }
        for idx in 0..=d {
            for (front, back, inter) in [(0, 0, 0), (1, 0, 0), (0, 1, 0), (9, 0, 0), (2, 0, 3), (0, 0, 20), (1, 0, 12)] {
                v.push(Step::Rem { axis, idx, pop: false, front, back, inter });
            }
        }
        v.push(Step::Rem { axis, idx: 0, pop: true, front: 0, back: 1, inter: 0 });
    }
    v.push(Step::Clear);
    v.push(Step::SwapDims);
    v.push(Step::Shrink);
    v.push(Step::CloneSelf);
    v.push(Step::CloneFrom(1, d));
    v
}

fn starts(d: usize) -> Vec<Step> {
    let mut v = vec![Step::Default, Step::WithCapacity(3), Step::New(1, 1), Step::Init(d, 1), Step::FromVec(1, d, d), Step::FromBox(d, d, d * d)];
    v.dedup();
    v
}

fn exhaustive_case<T: Elem + Clone + Ord + Default>(ctx: &mut Ctx, prop: &'static str, start: &Step, first: &Step, alpha: &[Step], depth: usize, valid_only: bool) {
    // depth-first over all continuations; each history is replayed from scratch
    let mut stack: Vec<Vec<usize>> = vec![vec![]];
    while let Some(prefix) = stack.pop() {
        ledger_reset();
        kv_reset();
        let mut h = Hist::<T>::new();
        h.valid_only = valid_only;
        let mut ok = h.step(ctx, start) != StepOut::Failed;
        let mut rejected = false;
        if ok {
            let o = h.step(ctx, first);
            ok = o != StepOut::Failed;
            rejected |= o == StepOut::Rejected || o == StepOut::Skipped;
        }
        for &i in &prefix {
            if !ok || (valid_only && rejected) {
                break;
            }
            let o = h.step(ctx, &alpha[i]);
            ok = o != StepOut::Failed;
            rejected |= o == StepOut::Rejected || o == StepOut::Skipped;
        }
        ctx.count("calls", (2 + prefix.len()) as u64);
        ctx.count("histories", 1);
        let pruned = valid_only && rejected;
        drop(h);
        ok &= check_double_drops(ctx, "drop");
        if ok && (!rejected || valid_only) {
            ok &= check_no_leak(ctx, "end-of-history");
        }
        if ok && !pruned {
            ctx.nontrivial((prop, T::NAME, start, first, prefix.iter().map(|i| &alpha[*i]).collect::<Vec<_>>()));
            if prefix.len() + 2 < depth + 1 {
                for i in 0..alpha.len() {
                    let mut p = prefix.clone();
                    p.push(i);
                    stack.push(p);
                }
            }
        }
        ledger_counts(ctx);
    }
}

fn hist_params(ctx: &Ctx) -> (usize, usize, usize, usize, usize) {
    // (reduced-alphabet dimension, exhaustive depth, #random histories, steps per history, maxdim)
    match (ctx.scale, ctx.tier) {
        (Scale::Miri, Tier::Quick) => (1, 1, 16, 10, 3),
        (Scale::Miri, Tier::Thorough) => (1, 2, 64, 16, 3),
        (Scale::Vg, _) => (1, 3, 300, 30, 5),
        (Scale::Native, Tier::Quick) => (2, 3, 6000, 40, 6),
        (Scale::Native, Tier::Thorough) => (3, 3, 200000, 60, 8),
    }
}

pub fn run_c01(ctx: &mut Ctx) {
    let (d, depth, nrand, nsteps, maxdim) = hist_params(ctx);
    let alpha = reduced_alphabet(d);
    for start in starts(d) {
        for first in &alpha {
            for ty in 0..2 {
                if ctx.case(|| format!("C01 exhaustive start={:?} first={:?} depth={} elem={}", start, first, depth, ["Tok", "Zst"][ty])) {
                    match ty {
                        0 => exhaustive_case::<Tok>(ctx, "C01", &start, first, &alpha, depth, false),
                        _ => exhaustive_case::<Zst>(ctx, "C01", &start, first, &alpha, depth.min(3), false),
                    }
                }
                if ctx.done() {
                    return;
                }
            }
        }
    }
    for i in 0..nrand {
        if ctx.case(|| format!("C01 random history #{} ({} steps)", i, nsteps)) {
            match i % 4 {
                0 | 1 => random_history::<Tok>(ctx, "C01", ctx.cur_idx, nsteps, true, false, maxdim, None),
                2 => random_history::<Kv>(ctx, "C01", ctx.cur_idx, nsteps, true, false, maxdim, None),
                _ => random_history::<Zst>(ctx, "C01", ctx.cur_idx, nsteps, true, false, maxdim, None),
            }
        }
        if ctx.done() {
            return;
        }
    }
    // histories that start from larger, exact-capacity arrays (size-threshold dependent paths)
    for (bi, shape) in crate::wl_insrem::big_shapes(ctx, 1).into_iter().enumerate() {
        for rep in 0..2 {
            if ctx.case(|| format!("C01 big-start history shape={}x{} #{}", shape.0, shape.1, rep)) {
                let md = shape.0.max(shape.1) + 3;
                match (bi + rep) % 3 {
                    0 | 1 => random_history::<Tok>(ctx, "C01", ctx.cur_idx, 14, true, false, md, Some(shape)),
                    _ => random_history::<Zst>(ctx, "C01", ctx.cur_idx, 14, true, false, md, Some(shape)),
                }
            }
            if ctx.done() {
                return;
            }
        }
    }
}

pub fn run_c05(ctx: &mut Ctx) {
    let (d, depth, nrand, nsteps, maxdim) = hist_params(ctx);
    // C05 histories contain no rejected calls, so that "nothing panics" holds and the end-of-history
    // leak check (ledger + LSan/Miri/memcheck) is sound.
    let alpha: Vec<Step> = reduced_alphabet(d);
    for start in starts(d) {
        for first in &alpha {
            for ty in 0..2 {
                if ctx.case(|| format!("C05 exhaustive(valid only) start={:?} first={:?} depth={} elem={}", start, first, depth, ["Tok", "Zst"][ty])) {
                    match ty {
                        0 => exhaustive_case::<Tok>(ctx, "C05", &start, first, &alpha, depth, true),
                        _ => exhaustive_case::<Zst>(ctx, "C05", &start, first, &alpha, depth.min(3), true),
                    }
                }
                if ctx.done() {
                    return;
                }
            }
        }
    }
    for i in 0..nrand {
        if ctx.case(|| format!("C05 random valid history #{} ({} steps)", i, nsteps)) {
            if i % 3 == 2 {
                random_history::<Zst>(ctx, "C05", ctx.cur_idx, nsteps, false, true, maxdim, None)
            } else {
                random_history::<Tok>(ctx, "C05", ctx.cur_idx, nsteps, false, true, maxdim, None)
            }
        }
        if ctx.done() {
            return;
        }
    }
    // histories that start from larger, exact-capacity arrays (size-threshold dependent paths)
    for (bi, shape) in crate::wl_insrem::big_shapes(ctx, 1).into_iter().enumerate() {
        for rep in 0..2 {
            if ctx.case(|| format!("C05 big-start history shape={}x{} #{}", shape.0, shape.1, rep)) {
                let md = shape.0.max(shape.1) + 3;
                match (bi + rep) % 3 {
                    0 | 1 => random_history::<Tok>(ctx, "C05", ctx.cur_idx, 14, false, true, md, Some(shape)),
                    _ => random_history::<Zst>(ctx, "C05", ctx.cur_idx, 14, false, true, md, Some(shape)),
                }
            }
            if ctx.done() {
                return;
            }
        }
    }
}
