//! C06 (insert row/column) and C07 (remove row/column): bounded-exhaustive enumeration against the model.
use crate::ctx::*;
use crate::elem::*;
use crate::model::*;
use crate::monitor::*;
use std::collections::{HashSet, VecDeque};
use toodee::*;

#[derive(Clone, Copy, PartialEq, Eq, Debug, Hash)]
pub enum Axis {
    Row,
    Col,
}

#[derive(Clone, Copy, PartialEq, Eq, Debug, Hash)]
pub enum CapClass {
    Exact,
    ReservedExact,
    Spare,
    /// some spare capacity, but less than the line that is about to be inserted
    Partial,
}

/// Iterator kind handed to insert_*: all are honest ExactSize + DoubleEnded iterators over pre-made items.
pub const ITER_KINDS: usize = 4;

pub fn do_insert<T: Elem>(a: &mut TooDee<T>, axis: Axis, push: bool, idx: usize, items: Vec<T>, ik: usize) {
    match (axis, push, ik % ITER_KINDS) {
        (Axis::Row, false, 0) => a.insert_row(idx, items),
        (Axis::Row, false, 1) => a.insert_row(idx, VecDeque::from(items)),
        (Axis::Row, false, 2) => a.insert_row(idx, items.into_iter().map(|x| x)),
        (Axis::Row, false, _) => a.insert_row(idx, Sup(SupIter::new(items, LenLie::Honest, false))),
        (Axis::Row, true, 0) => a.push_row(items),
        (Axis::Row, true, 1) => a.push_row(VecDeque::from(items)),
        (Axis::Row, true, 2) => a.push_row(items.into_iter().map(|x| x)),
        (Axis::Row, true, _) => a.push_row(Sup(SupIter::new(items, LenLie::Honest, false))),
        (Axis::Col, false, 0) => a.insert_col(idx, items),
        (Axis::Col, false, 1) => a.insert_col(idx, VecDeque::from(items)),
        (Axis::Col, false, 2) => a.insert_col(idx, items.into_iter().map(|x| x)),
        (Axis::Col, false, _) => a.insert_col(idx, Sup(SupIter::new(items, LenLie::Honest, false))),
        (Axis::Col, true, 0) => a.push_col(items),
        (Axis::Col, true, 1) => a.push_col(VecDeque::from(items)),
        (Axis::Col, true, 2) => a.push_col(items.into_iter().map(|x| x)),
        (Axis::Col, true, _) => a.push_col(Sup(SupIter::new(items, LenLie::Honest, false))),
    }
}

pub fn apply_cap<T: Elem>(a: &mut TooDee<T>, cap: CapClass, needed: usize) {
    match cap {
        CapClass::Exact => {}
        CapClass::ReservedExact => a.reserve_exact(needed),
        CapClass::Spare => a.reserve(needed + 17),
        CapClass::Partial => a.reserve_exact((needed / 2).max(1).min(needed.saturating_sub(1)).max(if needed > 1 { 1 } else { 0 })),
    }
}

fn dims(ctx: &Ctx, quick: usize, thorough: usize) -> usize {
    match (ctx.scale, ctx.tier) {
        (Scale::Miri, Tier::Quick) => 2,
        (Scale::Miri, Tier::Thorough) => 3,
        (Scale::Vg, _) => 4.min(quick),
        (Scale::Native, Tier::Quick) => quick,
        (Scale::Native, Tier::Thorough) => thorough,
    }
}

/// Larger shapes sampled in addition to the exhaustive small scope (size-threshold dependent paths).
pub fn big_shapes(ctx: &Ctx, salt: u64) -> Vec<(usize, usize)> {
    if ctx.scale != Scale::Native {
        return if ctx.scale == Scale::Vg { vec![(9, 5), (3, 17)] } else { vec![(9, 2)] };
    }
    let mut v = vec![(7, 7), (8, 3), (3, 8), (9, 16), (16, 9), (17, 17), (1, 33), (33, 1), (32, 2), (2, 32), (31, 5), (40, 7), (13, 40), (64, 3), (5, 65), (32, 32), (40, 30), (130, 9), (3, 400)];
    let mut rng = Rng::from_parts(ctx.seed, salt, 4242);
    let extra = if ctx.tier == Tier::Thorough { 40 } else { 6 };
    for _ in 0..extra {
        v.push((rng.range(1, 48), rng.range(1, 48)));
    }
    v
}

fn key_of(c: usize, r: usize) -> u32 {
    ((c * 7 + r * 3) % 5) as u32
}

// ================================================================================================
// C06

fn c06_case<T: Elem>(ctx: &mut Ctx, shape: (usize, usize), cap: CapClass, axis: Axis, big: bool) {
    let (cols, rows) = shape;
    let dim = if axis == Axis::Row { rows } else { cols };
    let line_len = if axis == Axis::Row { cols } else { rows };
    let n_max = dims(ctx, 6, 12);
    let mut idxs: Vec<usize> = if big { vec![0, 1, dim / 2, dim.saturating_sub(1), dim, dim + 1] } else { (0..=dim + 1).collect() };
    idxs.push(usize::MAX);
    idxs.sort_unstable();
    idxs.dedup();
    let lens: Vec<usize> = if cols == 0 {
        (0..=n_max + 1).collect()
    } else if big {
        vec![0, line_len - 1, line_len, line_len + 1]
    } else {
        (0..=line_len + 1).collect()
    };
    for &idx in &idxs {
        for &len in &lens {
            for push in [false, true] {
                if push && idx != dim {
                    continue;
                }
                // iterator kinds: all four on the diagonal cases, rotate otherwise (keeps cost bounded)
                let valid_shape = len == line_len || cols == 0;
                let kinds: Vec<usize> = if valid_shape && idx <= dim { (0..ITER_KINDS).collect() } else { vec![(idx.wrapping_add(len)) % ITER_KINDS] };
                for ik in kinds {
                    ledger_reset();
                    kv_reset();
                    let opname = match (axis, push) {
                        (Axis::Row, false) => "insert_row",
                        (Axis::Row, true) => "push_row",
                        (Axis::Col, false) => "insert_col",
                        (Axis::Col, true) => "push_col",
                    };
                    let (mut a, mut g) = build::<T>(cols, rows, &key_of);
                    apply_cap(&mut a, cap, len);
                    let items: Vec<T> = (0..len).map(|i| T::fresh(100 + i as u32)).collect();
                    let line: Vec<Mc> = items.iter().map(mc).collect();
                    let before = g.clone();
                    let verdict = if axis == Axis::Row { g.insert_row(idx, &line) } else { g.insert_col(idx, &line) };
                    let res = catches(|| do_insert(&mut a, axis, push, idx, items, ik));
                    ctx.count("calls", 1);
                    let what = format!("{}(idx={}, len={}) on {}x{} {:?} iter#{} {}", opname, idx, len, cols, rows, cap, ik, T::NAME);
                    ctx.detail(|| format!("{} -> model says {}", what, if verdict.is_ok() { "accept" } else { "reject" }));
                    match (verdict, res) {
                        (Ok(()), Ok(())) => {
                            ctx.count("accepted", 1);
                            let ok = check_shape(ctx, opname, &a, &mut g) & check_tokens(ctx, opname, &a, &HashSet::new()) & check_double_drops(ctx, opname);
                            if ok && (len > 0) {
                                ctx.nontrivial((axis, shape, idx, len, cap, T::NAME, push));
                            }
                            drop(a);
                            check_double_drops(ctx, opname);
                            check_no_leak(ctx, opname);
                        }
                        (Ok(()), Err(msg)) => {
                            ctx.violation(opname, "valid-call-panicked", format!("{}: {}", what, msg));
                            // the array must still be droppable
                            let mut g2 = before.clone();
                            let _ = (a.num_cols(), a.num_rows());
                            let _ = &mut g2;
                            drop(a);
                            check_double_drops(ctx, opname);
                        }
                        (Err(()), Ok(())) => {
                            ctx.violation(opname, "invalid-call-accepted", format!("{} returned; size now {:?}", what, a.size()));
                            drop(a);
                            check_double_drops(ctx, opname);
                        }
                        (Err(()), Err(_)) => {
                            ctx.count("rejected", 1);
                            g = before;
                            let ok = check_shape(ctx, opname, &a, &mut g) & check_tokens(ctx, opname, &a, &HashSet::new()) & check_double_drops(ctx, opname);
                            if ok && cols > 0 {
                                ctx.nontrivial((axis, shape, idx, len, cap, T::NAME, push, "rej"));
                            }
                            drop(a);
                            check_double_drops(ctx, opname);
                        }
                    }
                    ledger_counts(ctx);
                }
            }
        }
    }
}

pub fn run_c06(ctx: &mut Ctx) {
    let n = dims(ctx, 6, 12);
    for shape in shapes(n) {
        for cap in [CapClass::Exact, CapClass::ReservedExact, CapClass::Spare, CapClass::Partial] {
            for axis in [Axis::Row, Axis::Col] {
                for ty in 0..3 {
                    let tn = ["Kv", "Tok", "Zst"][ty];
                    if ctx.case(|| format!("C06 shape={}x{} cap={:?} axis={:?} elem={}", shape.0, shape.1, cap, axis, tn)) {
                        match ty {
                            0 => c06_case::<Kv>(ctx, shape, cap, axis, false),
                            1 => c06_case::<Tok>(ctx, shape, cap, axis, false),
                            _ => c06_case::<Zst>(ctx, shape, cap, axis, false),
                        }
                    }
                    if ctx.done() {
                        return;
                    }
                }
            }
        }
    }
    // larger shapes, sampled indices and lengths
    for shape in big_shapes(ctx, 6) {
        for (k, cap) in [CapClass::Exact, CapClass::Spare, CapClass::Partial].into_iter().enumerate() {
            for axis in [Axis::Row, Axis::Col] {
                let tys: Vec<usize> = if shape.0 * shape.1 >= 1000 { vec![0, 1, 2] } else { vec![(shape.0 + shape.1 + k) % 3] };
                for ty in tys {
                    if ctx.case(|| format!("C06 big shape={}x{} cap={:?} axis={:?} elem={}", shape.0, shape.1, cap, axis, ["Kv", "Tok", "Zst"][ty])) {
                        match ty {
                            0 => c06_case::<Kv>(ctx, shape, cap, axis, true),
                            1 => c06_case::<Tok>(ctx, shape, cap, axis, true),
                            _ => c06_case::<Zst>(ctx, shape, cap, axis, true),
                        }
                    }
                    if ctx.done() {
                        return;
                    }
                }
            }
        }
    }
    if ctx.scale == Scale::Native {
        giant_rows(ctx, "C06");
    }
}

// ================================================================================================
// C07

/// Drive a drain (any ExactSize + DoubleEnded iterator of T) taking `front` items from the front and
/// `back` from the back in the given interleaving, comparing with the ideal sequence `line`.
/// Yielded items are pushed to `held`. Returns false on mismatch.
pub fn drive_drain<T: Elem, D: Iterator<Item = T> + DoubleEndedIterator + ExactSizeIterator>(
    ctx: &mut Ctx,
    op: &str,
    mut d: D,
    line: &[Mc],
    front: usize,
    back: usize,
    inter: usize,
    held: &mut Vec<T>,
) -> bool {
    // `inter % 4`: 0 front-first, 1 back-first, 2 alternating, 3 one nth(front-1) / nth_back(back-1) jump
    // `inter / 4`: how the rest is consumed: 0 drop, 1 count, 2 last, 3 fold, 4 rev-collect, 5 skip(1).step_by(2)
    let mode = inter % 4;
    let finish = (inter / 4) % 6;
    let mut ideal: VecDeque<Mc> = line.iter().copied().collect();
    let mut f = front;
    let mut b = back;
    let mut turn = 0usize;
    let mut ok = true;
    let probe = |ctx: &mut Ctx, d: &D, ideal: &VecDeque<Mc>, ok: &mut bool| {
        let l = d.len();
        let sh = d.size_hint();
        if l != ideal.len() || sh != (ideal.len(), Some(ideal.len())) {
            ctx.violation(op, "drain:len", format!("len()={} size_hint={:?} ideal {}", l, sh, ideal.len()));
            *ok = false;
        }
    };
    let judge = |ctx: &mut Ctx, got: Option<T>, exp: Option<Mc>, how: &str, held: &mut Vec<T>, ok: &mut bool| {
        match (got, exp) {
            (Some(x), Some(m)) => {
                if !T::IS_ZST && mc(&x) != m {
                    ctx.violation(op, "drain:item", format!("{} yielded {:?} expected {:?}", how, mc(&x), m));
                    *ok = false;
                }
                held.push(x);
            }
            (None, None) => {}
            (g, e) => {
                ctx.violation(op, "drain:item", format!("{} yielded {:?} expected {:?}", how, g.as_ref().map(mc), e));
                if let Some(x) = g {
                    held.push(x);
                }
                *ok = false;
            }
        }
        ctx.count("drain_items", 1);
    };
    probe(ctx, &d, &ideal, &mut ok);
    if mode == 3 {
        if f > 0 {
            let got = d.nth(f - 1);
            for _ in 0..f - 1 {
                ideal.pop_front();
            }
            let exp = ideal.pop_front();
            judge(ctx, got, exp, "nth", held, &mut ok);
            if ok {
                probe(ctx, &d, &ideal, &mut ok);
            }
        }
        if ok && b > 0 {
            let got = d.nth_back(b - 1);
            for _ in 0..b - 1 {
                ideal.pop_back();
            }
            let exp = ideal.pop_back();
            judge(ctx, got, exp, "nth_back", held, &mut ok);
            if ok {
                probe(ctx, &d, &ideal, &mut ok);
            }
        }
        f = 0;
        b = 0;
    }
    while ok && (f > 0 || b > 0) {
        let take_front = match mode {
            0 => f > 0,
            1 => b == 0,
            _ => {
                turn += 1;
                if turn % 2 == 1 {
                    f > 0
                } else {
                    b == 0
                }
            }
        };
        let (got, exp) = if take_front {
            f -= 1;
            (d.next(), ideal.pop_front())
        } else {
            b -= 1;
            (d.next_back(), ideal.pop_back())
        };
        judge(ctx, got, exp, if take_front { "next" } else { "next_back" }, held, &mut ok);
        if ok {
            probe(ctx, &d, &ideal, &mut ok);
        }
    }
    if !ok {
        return false;
    }
    // consume / drop the rest
    let rest: Vec<Mc> = ideal.iter().copied().collect();
    let want: Vec<Mc>;
    let got: Vec<T>;
    match finish {
        0 => {
            drop(d);
            return true;
        }
        1 => {
            let n = d.count();
            if n != rest.len() {
                ctx.violation(op, "drain:count", format!("count()={} ideal {}", n, rest.len()));
                return false;
            }
            return true;
        }
        2 => {
            got = d.last().into_iter().collect();
            want = rest.last().copied().into_iter().collect();
        }
        3 => {
            got = d.fold(vec![], |mut acc, x| {
                acc.push(x);
                acc
            });
            want = rest.clone();
        }
        4 => {
            got = d.rev().collect();
            want = rest.iter().rev().copied().collect();
        }
        _ => {
            got = d.skip(1).step_by(2).collect();
            want = rest.iter().skip(1).step_by(2).copied().collect();
        }
    }
    let gm: Vec<Mc> = got.iter().map(mc).collect();
    held.extend(got);
    if gm.len() != want.len() || (!T::IS_ZST && gm != want) {
        ctx.violation(op, "drain:rest", format!("finish mode {} yielded {:?} expected {:?}", finish, gm, want));
        return false;
    }
    ctx.count("drain_items", want.len() as u64);
    true
}

fn c07_case<T: Elem>(ctx: &mut Ctx, shape: (usize, usize), axis: Axis, cap: CapClass, big: bool) {
    let (cols, rows) = shape;
    let dim = if axis == Axis::Row { rows } else { cols };
    let line_len = if axis == Axis::Row { cols } else { rows };
    // out-of-range indices and pop on empty
    for idx in [dim, dim + 1, usize::MAX] {
        ledger_reset();
        kv_reset();
        let (mut a, mut g) = build::<T>(cols, rows, &key_of);
        apply_cap(&mut a, cap, 0);
        let opname = if axis == Axis::Row { "remove_row" } else { "remove_col" };
        let res = catches(|| {
            if axis == Axis::Row {
                let d = a.remove_row(idx);
                d.len()
            } else {
                let d = a.remove_col(idx);
                d.len()
            }
        });
        ctx.count("calls", 1);
        match res {
            Ok(n) => ctx.violation(opname, "invalid-call-accepted", format!("{}({}) on {}x{} returned a drain of {} items", opname, idx, cols, rows, n)),
            Err(_) => {
                ctx.count("rejected", 1);
                let ok = check_shape(ctx, opname, &a, &mut g) & check_tokens(ctx, opname, &a, &HashSet::new());
                if ok && dim > 0 {
                    ctx.nontrivial((axis, shape, idx, "rej", T::NAME));
                }
            }
        }
        drop(a);
        check_double_drops(ctx, opname);
    }
    if dim == 0 {
        ledger_reset();
        let (mut a, mut g) = build::<T>(0, 0, &key_of);
        let none = if axis == Axis::Row { a.pop_row().is_none() } else { a.pop_col().is_none() };
        if !none {
            ctx.violation("pop", "pop-on-empty-not-none", format!("{:?}", axis));
        }
        check_shape(ctx, "pop", &a, &mut g);
        ctx.count("calls", 1);
        return;
    }
    let idx_list: Vec<usize> = if big {
        let mut v = vec![0, 1.min(dim - 1), dim / 2, dim - 1];
        v.sort_unstable();
        v.dedup();
        v
    } else {
        (0..dim).collect()
    };
    for idx in idx_list {
        for pop in [false, true] {
            if pop && idx != dim - 1 {
                continue;
            }
            for front in 0..=line_len {
                for back in 0..=(line_len - front) {
                    if big {
                        // sampled splits: nothing, one from either end, everything, a middle cut
                        let keep = matches!((front, back), (0, 0) | (1, 0) | (0, 1) | (2, 3))
                            || (front == line_len && back == 0)
                            || (front == 0 && back == line_len)
                            || (front == line_len / 2 && back == line_len - front)
                            || (front == line_len / 2 && back == 1);
                        if !keep {
                            continue;
                        }
                    }
                    // interleaving x finishing mode codes (see drive_drain)
                    let mut codes: Vec<usize> = vec![0];
                    if front > 0 && back > 0 {
                        codes.extend([1, 2]);
                    }
                    if front > 1 || back > 1 {
                        codes.push(3);
                    }
                    for fin in 1..6 {
                        let m = (front + back + fin) % 4;
                        codes.push(fin * 4 + if (m == 1 || m == 2) && (front == 0 || back == 0) { 0 } else { m });
                    }
                    for inter in codes {
                        ledger_reset();
                        kv_reset();
                        let (mut a, mut g) = build::<T>(cols, rows, &key_of);
                        apply_cap(&mut a, cap, 0);
                        let opname = match (axis, pop) {
                            (Axis::Row, false) => "remove_row",
                            (Axis::Row, true) => "pop_row",
                            (Axis::Col, false) => "remove_col",
                            (Axis::Col, true) => "pop_col",
                        };
                        let line = if axis == Axis::Row { g.remove_row(idx).unwrap() } else { g.remove_col(idx).unwrap() };
                        let mut held: Vec<T> = vec![];
                        let res = catches(|| {
                            let mut ok = true;
                            match (axis, pop) {
                                (Axis::Row, false) => {
                                    let d = a.remove_row(idx);
                                    ok &= drive_drain(ctx, opname, d, &line, front, back, inter, &mut held);
                                }
                                (Axis::Row, true) => match a.pop_row() {
                                    Some(d) => ok &= drive_drain(ctx, opname, d, &line, front, back, inter, &mut held),
                                    None => {
                                        ctx.violation(opname, "pop-none-on-nonempty", String::new());
                                        ok = false
                                    }
                                },
                                (Axis::Col, false) => {
                                    let d = a.remove_col(idx);
                                    ok &= drive_drain(ctx, opname, d, &line, front, back, inter, &mut held);
                                }
                                (Axis::Col, true) => match a.pop_col() {
                                    Some(d) => ok &= drive_drain(ctx, opname, d, &line, front, back, inter, &mut held),
                                    None => {
                                        ctx.violation(opname, "pop-none-on-nonempty", String::new());
                                        ok = false
                                    }
                                },
                            }
                            ok
                        });
                        ctx.count("calls", 1);
                        ctx.detail(|| format!("{}({}) on {}x{} {:?} {}: drain driven with front={} back={} mode-code={} then dropped", opname, idx, cols, rows, cap, T::NAME, front, back, inter));
                        match res {
                            Err(msg) => {
                                ctx.violation(opname, "valid-call-panicked", format!("{}({}) on {}x{} front={} back={} inter={} {}: {}", opname, idx, cols, rows, front, back, inter, T::NAME, msg));
                            }
                            Ok(ok0) => {
                                let held_ids: HashSet<u64> = held.iter().map(|t| t.uid()).collect();
                                let ok = ok0
                                    & check_shape(ctx, opname, &a, &mut g)
                                    & check_tokens(ctx, opname, &a, &held_ids)
                                    & check_double_drops(ctx, opname);
                                // everything the caller holds must still be alive
                                if T::OWNS && !T::IS_ZST {
                                    for h in &held {
                                        if !is_live(h.uid()) {
                                            ctx.violation(opname, "ledger:held-not-live", format!("yielded id {} already dropped", h.uid()));
                                        }
                                    }
                                }
                                if ok && (dim >= 2 || dim == 1) {
                                    ctx.nontrivial((axis, shape, idx, front, back, inter, T::NAME, pop));
                                }
                                drop(held);
                                drop(a);
                                check_double_drops(ctx, opname);
                                check_no_leak(ctx, opname);
                            }
                        }
                        ledger_counts(ctx);
                    }
                }
            }
        }
    }
}

pub fn run_c07(ctx: &mut Ctx) {
    let n = dims(ctx, 6, 11);
    for shape in shapes(n) {
        for axis in [Axis::Row, Axis::Col] {
            for cap in [CapClass::Exact, CapClass::Spare] {
                for ty in 0..3 {
                    let tn = ["Kv", "Tok", "Zst"][ty];
                    if ctx.case(|| format!("C07 shape={}x{} axis={:?} cap={:?} elem={}", shape.0, shape.1, axis, cap, tn)) {
                        match ty {
                            0 => c07_case::<Kv>(ctx, shape, axis, cap, false),
                            1 => c07_case::<Tok>(ctx, shape, axis, cap, false),
                            _ => c07_case::<Zst>(ctx, shape, axis, cap, false),
                        }
                    }
                    if ctx.done() {
                        return;
                    }
                }
            }
        }
    }
    for shape in big_shapes(ctx, 7) {
        for axis in [Axis::Row, Axis::Col] {
            for ty in 0..3 {
                let cap = if (shape.0 + ty) % 2 == 0 { CapClass::Exact } else { CapClass::Spare };
                if ctx.case(|| format!("C07 big shape={}x{} axis={:?} cap={:?} elem={}", shape.0, shape.1, axis, cap, ["Kv", "Tok", "Zst"][ty])) {
                    match ty {
                        0 => c07_case::<Kv>(ctx, shape, axis, cap, true),
                        1 => c07_case::<Tok>(ctx, shape, axis, cap, true),
                        _ => c07_case::<Zst>(ctx, shape, axis, cap, true),
                    }
                }
                if ctx.done() {
                    return;
                }
            }
        }
    }
    if ctx.scale == Scale::Native {
        giant_rows(ctx, "C07");
    }
}

// ================================================================================================
// Giant arrays of zero-sized elements (dimensions near usize::MAX): row operations are O(line length)
// for them, so sums and products of real dimensions can be driven to the edge of usize.

fn giant_row_shapes() -> Vec<(usize, usize)> {
    vec![(3, usize::MAX / 3 - 2), (1, usize::MAX - 3), (2, usize::MAX / 2 - 2), ((1usize << 32) + 1, (1usize << 32) - 3), (5, (usize::MAX / 5) - 1)]
}

/// insert_row / push_row / remove_row / pop_row on giant `TooDee<()>` arrays, judged by dimensions,
/// data length, drain length and the must-panic rule (contents are indistinguishable).
pub fn giant_rows(ctx: &mut Ctx, prop: &str) {
    for (c, r) in giant_row_shapes() {
        if c > 64 && prop == "C06" {
            // the supplied row has `c` elements: keep it small
            continue;
        }
        if !ctx.case(|| format!("{} giant zero-sized array {}x{} (row operations)", prop, c, r)) {
            continue;
        }
        let mk = || -> TooDee<()> { TooDee::from_vec(c, r, vec![(); c * r]) };
        let shape_ok = |a: &TooDee<()>, wc: usize, wr: usize| a.size() == (wc, wr) && a.data().len() == wc * wr && a.rows().len() == wr && a.col(0).len() == wr;
        if prop == "C06" {
            for idx in [0, 1, r / 2, r - 1, r, r + 1, usize::MAX] {
                for push in [false, true] {
                    if push && idx != r {
                        continue;
                    }
                    for len in [c, c - 1, c + 1] {
                        if len > 64 {
                            continue;
                        }
                        let mut a = mk();
                        let valid = idx <= r && len == c;
                        let res = catches(|| if push { a.push_row(vec![(); len]) } else { a.insert_row(idx, vec![(); len]) });
                        ctx.count("calls", 1);
                        ctx.count("giant_zst_checks", 1);
                        let what = format!("insert_row(idx={}, len={}) on giant {}x{}", idx, len, c, r);
                        match (valid, res) {
                            (true, Ok(())) => {
                                if !shape_ok(&a, c, r + 1) {
                                    ctx.violation("insert_row", "shape:dims-vs-len", format!("{}: size {:?} data.len() {}", what, a.size(), a.data().len()));
                                } else {
                                    ctx.count("accepted", 1);
                                    ctx.nontrivial((prop.to_string(), "giant", c, r, idx, len, push));
                                }
                            }
                            (false, Err(_)) => {
                                if !shape_ok(&a, c, r) {
                                    ctx.violation("insert_row", "shape:dims-vs-len", format!("{} (rejected): size {:?} data.len() {}", what, a.size(), a.data().len()));
                                } else {
                                    ctx.count("rejected", 1);
                                    ctx.nontrivial((prop.to_string(), "giant-rej", c, r, idx, len, push));
                                }
                            }
                            (true, Err(m)) => ctx.violation("insert_row", "valid-call-panicked", format!("{}: {}", what, m)),
                            (false, Ok(())) => ctx.violation("insert_row", "invalid-call-accepted", format!("{}: size now {:?}", what, a.size())),
                        }
                    }
                }
            }
        } else {
            for idx in [0, 1, r / 2, r - 1, r, r + 1, usize::MAX] {
                for pop in [false, true] {
                    if pop && idx != r - 1 {
                        continue;
                    }
                    let mut a = mk();
                    let valid = idx < r;
                    let take = c.min(3);
                    let res = catches(|| {
                        let mut d = if pop { a.pop_row().expect("harness: pop on non-empty") } else { a.remove_row(idx) };
                        let l0 = d.len();
                        let mut got = 0usize;
                        for _ in 0..take {
                            if d.next().is_some() {
                                got += 1;
                            }
                        }
                        let l1 = d.len();
                        (l0, got, l1)
                    });
                    ctx.count("calls", 1);
                    ctx.count("giant_zst_checks", 1);
                    let what = format!("remove_row({}) on giant {}x{}", idx, c, r);
                    match (valid, res) {
                        (true, Ok((l0, got, l1))) => {
                            if (l0, got, l1) != (c, take, c - take) {
                                ctx.violation("remove_row", "drain:len", format!("{}: drain len {} took {} then len {}", what, l0, got, l1));
                            } else if !shape_ok(&a, c, r - 1) {
                                ctx.violation("remove_row", "shape:dims-vs-len", format!("{}: size {:?} data.len() {}", what, a.size(), a.data().len()));
                            } else {
                                ctx.count("drain_items", take as u64);
                                ctx.nontrivial((prop.to_string(), "giant", c, r, idx, pop));
                            }
                        }
                        (false, Err(_)) => {
                            if !shape_ok(&a, c, r) {
                                ctx.violation("remove_row", "shape:dims-vs-len", format!("{} (rejected): size {:?}", what, a.size()));
                            } else {
                                ctx.count("rejected", 1);
                            }
                        }
                        (true, Err(m)) => ctx.violation("remove_row", "valid-call-panicked", format!("{}: {}", what, m)),
                        (false, Ok(_)) => ctx.violation("remove_row", "invalid-call-accepted", what),
                    }
                }
            }
        }
    }
}
