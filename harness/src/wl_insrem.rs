//! C06 (insert row/column) and C07 (remove row/column): bounded-exhaustive enumeration against the model.
use crate::ctx::*;
use crate::elem::*;
use crate::model::*;
use crate::monitor::*;
use std::collections::{HashSet, VecDeque};
use toodee::*;

#[derive(Clone, Copy, PartialEq, Eq, Debug, Hash)]
pub enum Axis {
    Row,
    Col,
}

#[derive(Clone, Copy, PartialEq, Eq, Debug, Hash)]
pub enum CapClass {
    Exact,
    ReservedExact,
    Spare,
}

/// Iterator kind handed to insert_*: all are honest ExactSize + DoubleEnded iterators over pre-made items.
pub const ITER_KINDS: usize = 4;

pub fn do_insert<T: Elem>(a: &mut TooDee<T>, axis: Axis, push: bool, idx: usize, items: Vec<T>, ik: usize) {
    match (axis, push, ik % ITER_KINDS) {
        (Axis::Row, false, 0) => a.insert_row(idx, items),
        (Axis::Row, false, 1) => a.insert_row(idx, VecDeque::from(items)),
        (Axis::Row, false, 2) => a.insert_row(idx, items.into_iter().map(|x| x)),
        (Axis::Row, false, _) => a.insert_row(idx, Sup(SupIter::new(items, LenLie::Honest, false))),
        (Axis::Row, true, 0) => a.push_row(items),
        (Axis::Row, true, 1) => a.push_row(VecDeque::from(items)),
        (Axis::Row, true, 2) => a.push_row(items.into_iter().map(|x| x)),
        (Axis::Row, true, _) => a.push_row(Sup(SupIter::new(items, LenLie::Honest, false))),
        (Axis::Col, false, 0) => a.insert_col(idx, items),
        (Axis::Col, false, 1) => a.insert_col(idx, VecDeque::from(items)),
        (Axis::Col, false, 2) => a.insert_col(idx, items.into_iter().map(|x| x)),
        (Axis::Col, false, _) => a.insert_col(idx, Sup(SupIter::new(items, LenLie::Honest, false))),
        (Axis::Col, true, 0) => a.push_col(items),
        (Axis::Col, true, 1) => a.push_col(VecDeque::from(items)),
        (Axis::Col, true, 2) => a.push_col(items.into_iter().map(|x| x)),
        (Axis::Col, true, _) => a.push_col(Sup(SupIter::new(items, LenLie::Honest, false))),
    }
}

pub fn apply_cap<T: Elem>(a: &mut TooDee<T>, cap: CapClass, needed: usize) {
    match cap {
        CapClass::Exact => {}
        CapClass::ReservedExact => a.reserve_exact(needed),
        CapClass::Spare => a.reserve(needed + 17),
    }
}

fn dims(ctx: &Ctx, quick: usize, thorough: usize) -> usize {
    match (ctx.scale, ctx.tier) {
        (Scale::Miri, Tier::Quick) => 2,
        (Scale::Miri, Tier::Thorough) => 3,
        (Scale::Vg, _) => 4.min(quick),
        (Scale::Native, Tier::Quick) => quick,
        (Scale::Native, Tier::Thorough) => thorough,
    }
}

fn key_of(c: usize, r: usize) -> u32 {
    ((c * 7 + r * 3) % 5) as u32
}

// ================================================================================================
// C06

fn c06_case<T: Elem>(ctx: &mut Ctx, shape: (usize, usize), cap: CapClass, axis: Axis) {
    let (cols, rows) = shape;
    let dim = if axis == Axis::Row { rows } else { cols };
    let line_len = if axis == Axis::Row { cols } else { rows };
    let n_max = dims(ctx, 6, 9);
    let mut idxs: Vec<usize> = (0..=dim + 1).collect();
    idxs.push(usize::MAX);
    let lens: Vec<usize> = if cols == 0 { (0..=n_max + 1).collect() } else { (0..=line_len + 1).collect() };
    for &idx in &idxs {
        for &len in &lens {
            for push in [false, true] {
                if push && idx != dim {
                    continue;
                }
                // iterator kinds: all four on the diagonal cases, rotate otherwise (keeps cost bounded)
                let valid_shape = len == line_len || cols == 0;
                let kinds: Vec<usize> = if valid_shape && idx <= dim { (0..ITER_KINDS).collect() } else { vec![(idx.wrapping_add(len)) % ITER_KINDS] };
                for ik in kinds {
                    ledger_reset();
                    kv_reset();
                    let opname = match (axis, push) {
                        (Axis::Row, false) => "insert_row",
                        (Axis::Row, true) => "push_row",
                        (Axis::Col, false) => "insert_col",
                        (Axis::Col, true) => "push_col",
                    };
                    let (mut a, mut g) = build::<T>(cols, rows, &key_of);
                    apply_cap(&mut a, cap, len);
                    let items: Vec<T> = (0..len).map(|i| T::fresh(100 + i as u32)).collect();
                    let line: Vec<Mc> = items.iter().map(mc).collect();
                    let before = g.clone();
                    let verdict = if axis == Axis::Row { g.insert_row(idx, &line) } else { g.insert_col(idx, &line) };
                    let res = catches(|| do_insert(&mut a, axis, push, idx, items, ik));
                    ctx.count("calls", 1);
                    let what = format!("{}(idx={}, len={}) on {}x{} {:?} iter#{} {}", opname, idx, len, cols, rows, cap, ik, T::NAME);
                    match (verdict, res) {
                        (Ok(()), Ok(())) => {
                            ctx.count("accepted", 1);
                            let ok = check_shape(ctx, opname, &a, &mut g) & check_tokens(ctx, opname, &a, &HashSet::new()) & check_double_drops(ctx, opname);
                            if ok && (len > 0) {
                                ctx.nontrivial((axis, shape, idx, len, cap, T::NAME, push));
                            }
                            drop(a);
                            check_double_drops(ctx, opname);
                            check_no_leak(ctx, opname);
                        }
                        (Ok(()), Err(msg)) => {
                            ctx.violation(opname, "valid-call-panicked", format!("{}: {}", what, msg));
                            // the array must still be droppable
                            let mut g2 = before.clone();
                            let _ = (a.num_cols(), a.num_rows());
                            let _ = &mut g2;
                            drop(a);
                            check_double_drops(ctx, opname);
                        }
                        (Err(()), Ok(())) => {
                            ctx.violation(opname, "invalid-call-accepted", format!("{} returned; size now {:?}", what, a.size()));
                            drop(a);
                            check_double_drops(ctx, opname);
                        }
                        (Err(()), Err(_)) => {
                            ctx.count("rejected", 1);
                            g = before;
                            let ok = check_shape(ctx, opname, &a, &mut g) & check_tokens(ctx, opname, &a, &HashSet::new()) & check_double_drops(ctx, opname);
                            if ok && cols > 0 {
                                ctx.nontrivial((axis, shape, idx, len, cap, T::NAME, push, "rej"));
                            }
                            drop(a);
                            check_double_drops(ctx, opname);
                        }
                    }
                    ledger_counts(ctx);
                }
            }
        }
    }
}

pub fn run_c06(ctx: &mut Ctx) {
    let n = dims(ctx, 6, 9);
    for shape in shapes(n) {
        for cap in [CapClass::Exact, CapClass::ReservedExact, CapClass::Spare] {
            for axis in [Axis::Row, Axis::Col] {
                for ty in 0..3 {
                    let tn = ["Kv", "Tok", "Zst"][ty];
                    if ctx.case(|| format!("C06 shape={}x{} cap={:?} axis={:?} elem={}", shape.0, shape.1, cap, axis, tn)) {
                        match ty {
                            0 => c06_case::<Kv>(ctx, shape, cap, axis),
                            1 => c06_case::<Tok>(ctx, shape, cap, axis),
                            _ => c06_case::<Zst>(ctx, shape, cap, axis),
                        }
                    }
                    if ctx.done() {
                        return;
                    }
                }
            }
        }
    }
}

// ================================================================================================
// C07

/// Drive a drain (any ExactSize + DoubleEnded iterator of T) taking `front` items from the front and
/// `back` from the back in the given interleaving, comparing with the ideal sequence `line`.
/// Yielded items are pushed to `held`. Returns false on mismatch.
pub fn drive_drain<T: Elem, D: Iterator<Item = T> + DoubleEndedIterator + ExactSizeIterator>(
    ctx: &mut Ctx,
    op: &str,
    d: &mut D,
    line: &[Mc],
    front: usize,
    back: usize,
    inter: usize,
    held: &mut Vec<T>,
) -> bool {
    let mut ideal: VecDeque<Mc> = line.iter().copied().collect();
    let mut f = front;
    let mut b = back;
    let mut turn = 0usize;
    let mut ok = true;
    let probe = |ctx: &mut Ctx, d: &D, ideal: &VecDeque<Mc>, ok: &mut bool| {
        let l = d.len();
        let sh = d.size_hint();
        if l != ideal.len() || sh != (ideal.len(), Some(ideal.len())) {
            ctx.violation(op, "drain:len", format!("len()={} size_hint={:?} ideal {}", l, sh, ideal.len()));
            *ok = false;
        }
    };
    probe(ctx, d, &ideal, &mut ok);
    while ok && (f > 0 || b > 0) {
        let take_front = match inter {
            0 => f > 0,
            1 => b == 0,
            _ => {
                turn += 1;
                if turn % 2 == 1 {
                    f > 0
                } else {
                    b == 0
                }
            }
        };
        let (got, exp) = if take_front {
            f -= 1;
            (d.next(), ideal.pop_front())
        } else {
            b -= 1;
            (d.next_back(), ideal.pop_back())
        };
        match (got, exp) {
            (Some(x), Some(m)) => {
                if !T::IS_ZST && mc(&x) != m {
                    ctx.violation(op, "drain:item", format!("yielded {:?} expected {:?} (front={})", mc(&x), m, take_front));
                    ok = false;
                }
                held.push(x);
            }
            (None, None) => {}
            (g, e) => {
                ctx.violation(op, "drain:item", format!("yielded {:?} expected {:?}", g.as_ref().map(mc), e));
                if let Some(x) = g {
                    held.push(x);
                }
                ok = false;
            }
        }
        ctx.count("drain_items", 1);
        if ok {
            probe(ctx, d, &ideal, &mut ok);
        }
    }
    ok
}

fn c07_case<T: Elem>(ctx: &mut Ctx, shape: (usize, usize), axis: Axis, cap: CapClass) {
    let (cols, rows) = shape;
    let dim = if axis == Axis::Row { rows } else { cols };
    let line_len = if axis == Axis::Row { cols } else { rows };
    // out-of-range indices and pop on empty
    for idx in [dim, dim + 1, usize::MAX] {
        ledger_reset();
        kv_reset();
        let (mut a, mut g) = build::<T>(cols, rows, &key_of);
        apply_cap(&mut a, cap, 0);
        let opname = if axis == Axis::Row { "remove_row" } else { "remove_col" };
        let res = catches(|| {
            if axis == Axis::Row {
                let d = a.remove_row(idx);
                d.len()
            } else {
                let d = a.remove_col(idx);
                d.len()
            }
        });
        ctx.count("calls", 1);
        match res {
            Ok(n) => ctx.violation(opname, "invalid-call-accepted", format!("{}({}) on {}x{} returned a drain of {} items", opname, idx, cols, rows, n)),
            Err(_) => {
                ctx.count("rejected", 1);
                let ok = check_shape(ctx, opname, &a, &mut g) & check_tokens(ctx, opname, &a, &HashSet::new());
                if ok && dim > 0 {
                    ctx.nontrivial((axis, shape, idx, "rej", T::NAME));
                }
            }
        }
        drop(a);
        check_double_drops(ctx, opname);
    }
    if dim == 0 {
        ledger_reset();
        let (mut a, mut g) = build::<T>(0, 0, &key_of);
        let none = if axis == Axis::Row { a.pop_row().is_none() } else { a.pop_col().is_none() };
        if !none {
            ctx.violation("pop", "pop-on-empty-not-none", format!("{:?}", axis));
        }
        check_shape(ctx, "pop", &a, &mut g);
        ctx.count("calls", 1);
        return;
    }
    for idx in 0..dim {
        for pop in [false, true] {
            if pop && idx != dim - 1 {
                continue;
            }
            for front in 0..=line_len {
                for back in 0..=(line_len - front) {
                    for inter in 0..3 {
                        if inter > 0 && (front == 0 || back == 0) {
                            continue; // interleavings coincide
                        }
                        ledger_reset();
                        kv_reset();
                        let (mut a, mut g) = build::<T>(cols, rows, &key_of);
                        apply_cap(&mut a, cap, 0);
                        let opname = match (axis, pop) {
                            (Axis::Row, false) => "remove_row",
                            (Axis::Row, true) => "pop_row",
                            (Axis::Col, false) => "remove_col",
                            (Axis::Col, true) => "pop_col",
                        };
                        let line = if axis == Axis::Row { g.remove_row(idx).unwrap() } else { g.remove_col(idx).unwrap() };
                        let mut held: Vec<T> = vec![];
                        let res = catches(|| {
                            let mut ok = true;
                            match (axis, pop) {
                                (Axis::Row, false) => {
                                    let mut d = a.remove_row(idx);
                                    ok &= drive_drain(ctx, opname, &mut d, &line, front, back, inter, &mut held);
                                }
                                (Axis::Row, true) => match a.pop_row() {
                                    Some(mut d) => ok &= drive_drain(ctx, opname, &mut d, &line, front, back, inter, &mut held),
                                    None => {
                                        ctx.violation(opname, "pop-none-on-nonempty", String::new());
                                        ok = false
                                    }
                                },
                                (Axis::Col, false) => {
                                    let mut d = a.remove_col(idx);
                                    ok &= drive_drain(ctx, opname, &mut d, &line, front, back, inter, &mut held);
                                }
                                (Axis::Col, true) => match a.pop_col() {
                                    Some(mut d) => ok &= drive_drain(ctx, opname, &mut d, &line, front, back, inter, &mut held),
                                    None => {
                                        ctx.violation(opname, "pop-none-on-nonempty", String::new());
                                        ok = false
                                    }
                                },
                            }
                            ok
                        });
                        ctx.count("calls", 1);
                        match res {
                            Err(msg) => {
                                ctx.violation(opname, "valid-call-panicked", format!("{}({}) on {}x{} front={} back={} inter={} {}: {}", opname, idx, cols, rows, front, back, inter, T::NAME, msg));
                            }
                            Ok(ok0) => {
                                let held_ids: HashSet<u64> = held.iter().map(|t| t.uid()).collect();
                                let ok = ok0
                                    & check_shape(ctx, opname, &a, &mut g)
                                    & check_tokens(ctx, opname, &a, &held_ids)
                                    & check_double_drops(ctx, opname);
                                // everything the caller holds must still be alive
                                if T::OWNS && !T::IS_ZST {
                                    for h in &held {
                                        if !is_live(h.uid()) {
                                            ctx.violation(opname, "ledger:held-not-live", format!("yielded id {} already dropped", h.uid()));
                                        }
                                    }
                                }
                                if ok && (dim >= 2 || dim == 1) {
                                    ctx.nontrivial((axis, shape, idx, front, back, inter, T::NAME, pop));
                                }
                                drop(held);
                                drop(a);
                                check_double_drops(ctx, opname);
                                check_no_leak(ctx, opname);
                            }
                        }
                        ledger_counts(ctx);
                    }
                }
            }
        }
    }
}

pub fn run_c07(ctx: &mut Ctx) {
    let n = dims(ctx, 6, 9);
    for shape in shapes(n) {
        for axis in [Axis::Row, Axis::Col] {
            for cap in [CapClass::Exact, CapClass::Spare] {
                for ty in 0..3 {
                    let tn = ["Kv", "Tok", "Zst"][ty];
                    if ctx.case(|| format!("C07 shape={}x{} axis={:?} cap={:?} elem={}", shape.0, shape.1, axis, cap, tn)) {
                        match ty {
                            0 => c07_case::<Kv>(ctx, shape, axis, cap),
                            1 => c07_case::<Tok>(ctx, shape, axis, cap),
                            _ => c07_case::<Zst>(ctx, shape, axis, cap),
                        }
                    }
                    if ctx.done() {
                        return;
                    }
                }
            }
        }
    }
}
