//! C08 (rows / rows_mut), C09 (col / col_mut), C10 (cells / cells_mut / IntoIterator forms):
//! every iterator is driven by call scripts side by side with std's `vec::IntoIter` over the expected
//! item list (the "ideal double-ended exact-size sequence"); items are compared by address.
use crate::ctx::*;
use crate::model::{shapes, windows};
use crate::recv::Win;
use toodee::*;

type D = (usize, usize);

pub trait Item {
    fn desc(&self) -> D;
    /// write fresh values through a mutable item (no-op for shared items)
    fn poke(self, next: &mut u32);
}
impl<'a> Item for &'a [u32] {
    fn desc(&self) -> D {
        (self.as_ptr() as usize, self.len())
    }
    fn poke(self, _n: &mut u32) {}
}
impl<'a> Item for &'a mut [u32] {
    fn desc(&self) -> D {
        (self.as_ptr() as usize, self.len())
    }
    fn poke(self, n: &mut u32) {
        for c in self.iter_mut() {
            *c = *n;
            *n += 1;
        }
    }
}
impl<'a> Item for &'a u32 {
    fn desc(&self) -> D {
        (*self as *const u32 as usize, 1)
    }
    fn poke(self, _n: &mut u32) {}
}
impl<'a> Item for &'a mut u32 {
    fn desc(&self) -> D {
        (&**self as *const u32 as usize, 1)
    }
    fn poke(self, n: &mut u32) {
        *self = *n;
        *n += 1;
    }
}

#[derive(Clone, Copy, Debug, Hash, PartialEq, Eq)]
pub enum N {
    Z,
    One,
    Two,
    RemM1,
    Rem,
    RemP1,
    CM1,
    C,
    CP1,
    C2,
    CR,
    Max,
    MaxDivP1,
    P63,
    Lit(usize),
}
pub const NS: [N; 14] = [N::Z, N::One, N::Two, N::RemM1, N::Rem, N::RemP1, N::CM1, N::C, N::CP1, N::C2, N::CR, N::Max, N::MaxDivP1, N::P63];

#[derive(Clone, Copy, Debug, Hash, PartialEq, Eq)]
pub enum Call {
    Next,
    NextBack,
    Len,
    Nth(N),
    NthBack(N),
    Idx(N),
}
#[derive(Clone, Copy, Debug, Hash, PartialEq, Eq)]
pub enum Term {
    Drop,
    Count,
    Last,
    Fold,
    RFold,
    Collect,
    CollectRev,
}
pub const TERMS: [Term; 7] = [Term::Drop, Term::Count, Term::Last, Term::Fold, Term::RFold, Term::Collect, Term::CollectRev];

pub struct Geo {
    /// window columns (what TooDeeIterator::num_cols must report; also the row-crossing unit)
    pub c: usize,
    pub total: usize,
    pub stride: usize,
}

fn resolve(n: N, rem: usize, g: &Geo) -> usize {
    match n {
        N::Z => 0,
        N::One => 1,
        N::Two => 2,
        N::RemM1 => rem.saturating_sub(1),
        N::Rem => rem,
        N::RemP1 => rem + 1,
        N::CM1 => g.c.saturating_sub(1),
        N::C => g.c,
        N::CP1 => g.c + 1,
        N::C2 => 2 * g.c,
        N::CR => g.total,
        N::Max => usize::MAX,
        N::MaxDivP1 => (usize::MAX / g.stride.max(1)).saturating_add(1),
        N::P63 => 1usize << 63,
        N::Lit(v) => v,
    }
}

pub struct IterKind<'a> {
    pub name: &'a str,
    /// Some(cols) if the iterator advertises TooDeeIterator::num_cols
    pub indexable: bool,
}

/// Drive `it` through `script` + `term` against the ideal sequence. Returns the items that are still
/// held by the caller (for the write-through check) or Err(()) after reporting a violation.
pub fn drive<I>(
    ctx: &mut Ctx,
    name: &str,
    mut it: I,
    expected: &[D],
    script: &[Call],
    term: Term,
    g: &Geo,
    index: Option<&dyn Fn(&I, usize) -> D>,
) -> Result<Vec<I::Item>, ()>
where
    I: DoubleEndedIterator + ExactSizeIterator,
    I::Item: Item,
{
    let mut ideal = expected.to_vec().into_iter();
    let mut held: Vec<I::Item> = vec![];
    let fail = |ctx: &mut Ctx, what: &str, step: usize, got: String, want: String| {
        ctx.violation(name, what, format!("script {:?} term {:?} step {}: got {} ideal {} (expected items {}, cols {}, stride {})", script, term, step, got, want, expected.len(), g.c, g.stride));
    };
    for (step, call) in script.iter().enumerate() {
        let rem = ideal.len();
        // cursor state in the ideal sequence (lo/hi positions) for the coverage counters
        let lo = expected.len() - rem; // not exact after back consumption, good enough as a class
        ctx.seen("iter_states", (name, *call, rem.min(3), if g.c > 0 { lo % g.c.max(1) != 0 } else { false }));
        match *call {
            Call::Next | Call::NextBack | Call::Nth(_) | Call::NthBack(_) => {
                let (got, want) = match *call {
                    Call::Next => (it.next(), ideal.next()),
                    Call::NextBack => (it.next_back(), ideal.next_back()),
                    Call::Nth(n) => {
                        let n = resolve(n, rem, g);
                        (it.nth(n), ideal.nth(n))
                    }
                    Call::NthBack(n) => {
                        let n = resolve(n, rem, g);
                        (it.nth_back(n), ideal.nth_back(n))
                    }
                    _ => unreachable!(),
                };
                let gd = got.as_ref().map(|x| x.desc());
                if gd != want {
                    fail(ctx, "iter:item", step, format!("{:x?}", gd), format!("{:x?}", want));
                    return Err(());
                }
                if let Some(x) = got {
                    held.push(x);
                }
            }
            Call::Len => {
                let l = it.len();
                let sh = it.size_hint();
                if l != ideal.len() || sh != (ideal.len(), Some(ideal.len())) {
                    fail(ctx, "iter:len", step, format!("len {} size_hint {:?}", l, sh), format!("{}", ideal.len()));
                    return Err(());
                }
            }
            Call::Idx(n) => {
                if let Some(ix) = index {
                    let i = resolve(n, rem, g);
                    let want = ideal.as_slice().get(i).copied();
                    let got = catches(|| ix(&it, i)).ok();
                    if got != want {
                        fail(ctx, "iter:index", step, format!("[{}] -> {:x?}", i, got), format!("{:x?}", want));
                        return Err(());
                    }
                    ctx.count("index_calls", 1);
                }
            }
        }
        ctx.count("iter_calls", 1);
    }
    // every prefix also agrees on the remaining length
    if it.len() != ideal.len() {
        fail(ctx, "iter:len", script.len(), format!("len {}", it.len()), format!("{}", ideal.len()));
        return Err(());
    }
    match term {
        Term::Drop => {}
        Term::Count => {
            let (a, b) = (it.count(), ideal.count());
            if a != b {
                fail(ctx, "iter:count", script.len(), a.to_string(), b.to_string());
                return Err(());
            }
        }
        Term::Last => {
            let (a, b) = (it.last(), ideal.last());
            if a.as_ref().map(|x| x.desc()) != b {
                fail(ctx, "iter:last", script.len(), format!("{:x?}", a.as_ref().map(|x| x.desc())), format!("{:x?}", b));
                return Err(());
            }
            if let Some(x) = a {
                held.push(x);
            }
        }
        Term::Fold | Term::RFold | Term::Collect | Term::CollectRev => {
            let (a, b): (Vec<I::Item>, Vec<D>) = match term {
                Term::Fold => (
                    it.fold(vec![], |mut acc, x| {
                        acc.push(x);
                        acc
                    }),
                    ideal.collect(),
                ),
                Term::RFold => (
                    it.rfold(vec![], |mut acc, x| {
                        acc.push(x);
                        acc
                    }),
                    ideal.rev().collect(),
                ),
                Term::Collect => (it.collect(), ideal.collect()),
                _ => (it.rev().collect(), ideal.rev().collect()),
            };
            let ad: Vec<D> = a.iter().map(|x| x.desc()).collect();
            if ad != b {
                fail(ctx, "iter:rest", script.len(), format!("{:x?}", &ad[..ad.len().min(8)]), format!("{:x?}", &b[..b.len().min(8)]));
                return Err(());
            }
            held.extend(a);
        }
    }
    ctx.count("calls", 1);
    Ok(held)
}

// ------------------------------------------------------------------------------------------------
// receivers and iterator kinds

#[derive(Clone, Copy, Debug, Hash, PartialEq, Eq)]
pub enum RK {
    /// TooDeeView::new over a slice longer than needed (window = whole shape)
    SliceView,
    /// TooDeeViewMut::new over a slice longer than needed
    SliceViewMut,
    /// TooDeeView::from(TooDeeViewMut::new(.. longer slice ..))
    SliceViewMutInto,
    /// TooDeeView::from(parent.view_mut(window))
    ViewMutInto,
    Owned,
    View,
    ViewOfView,
    ViewMut,
    ViewMutNested,
    ViewOfViewMut,
}
#[derive(Clone, Copy, Debug, Hash, PartialEq, Eq)]
pub enum IK {
    Rows,
    RowsMut,
    Col(usize),
    ColMut(usize),
    Cells,
    CellsMut,
    RefIntoIter,
    MutIntoIter,
}

fn parent_of(pc: usize, pr: usize) -> TooDee<u32> {
    TooDee::from_box(pc, pr, (0..(pc * pr) as u32).map(|i| 1000 + i).collect::<Vec<_>>().into_boxed_slice())
}

/// expected item descriptors of iterator kind `ik` over `win` of a parent at `base`
fn expected_items(ik: IK, base: usize, pc: usize, win: Win) -> Vec<D> {
    let (s, e) = win;
    let (wc, wr) = (e.0 - s.0, e.1 - s.1);
    if wc == 0 || wr == 0 {
        return vec![];
    }
    let cell = |c: usize, r: usize| base + ((s.1 + r) * pc + s.0 + c) * 4;
    match ik {
        IK::Rows | IK::RowsMut => (0..wr).map(|r| (cell(0, r), wc)).collect(),
        IK::Col(c) | IK::ColMut(c) => (0..wr).map(|r| (cell(c, r), 1)).collect(),
        _ => (0..wr).flat_map(|r| (0..wc).map(move |c| (c, r))).map(|(c, r)| (cell(c, r), 1)).collect(),
    }
}

struct ScriptRun<'s> {
    script: &'s [Call],
    term: Term,
}

/// Run one script on one iterator kind of one receiver; includes the write-through check.
fn run_one(ctx: &mut Ctx, prop: &str, pshape: (usize, usize), win: Win, rk: RK, ik: IK, sr: &ScriptRun<'_>) -> bool {
    let (pc, pr) = pshape;
    let mut parent = parent_of(pc, pr);
    let on_slice = matches!(rk, RK::SliceView | RK::SliceViewMut | RK::SliceViewMutInto);
    // slice-backed receivers live over a buffer that is 3 elements longer than the shape needs
    let mut buf: Vec<u32> = if on_slice { parent.data().iter().copied().chain([7771, 7772, 7773]).collect() } else { vec![] };
    let base = if on_slice { buf.as_ptr() as usize } else { parent.data().as_ptr() as usize };
    let before: Vec<u32> = if on_slice { buf.clone() } else { parent.data().to_vec() };
    let (s, e) = win;
    let (mut wc, mut wr) = (e.0 - s.0, e.1 - s.1);
    if wc == 0 || wr == 0 {
        wc = 0;
        wr = 0;
    }
    let exp = expected_items(ik, base, pc, win);
    let g = Geo { c: wc, total: wc * wr, stride: pc.max(1) };
    let name = format!("{:?}/{:?}", rk, match ik {
        IK::Col(_) => "Col".to_string(),
        IK::ColMut(_) => "ColMut".to_string(),
        o => format!("{:?}", o),
    });
    let mut next_val = 5000u32;
    let mut poked: Vec<D> = vec![];
    let script = sr.script;
    let term = sr.term;

    macro_rules! shared_on {
        ($x:expr) => {{
            let x = $x;
            match ik {
                IK::Rows => {
                    let it = x.rows();
                    if TooDeeIterator::num_cols(&it) != wc {
                        ctx.count("toodee_iterator_num_cols_mismatch", 1); // not part of C08-C10 as stated: observed, not judged
                    }
                    drive(ctx, &name, it, &exp, script, term, &g, None).map(|_| ())
                }
                IK::Col(c) => {
                    let it = x.col(c);
                    let ix = |i: &Col<'_, u32>, k: usize| -> D { (&i[k] as *const u32 as usize, 1) };
                    drive(ctx, &name, it, &exp, script, term, &g, Some(&ix)).map(|_| ())
                }
                IK::Cells => {
                    let it = x.cells();
                    if TooDeeIterator::num_cols(&it) != wc {
                        ctx.count("toodee_iterator_num_cols_mismatch", 1); // not part of C08-C10 as stated: observed, not judged
                    }
                    drive(ctx, &name, it, &exp, script, term, &g, None).map(|_| ())
                }
                IK::RefIntoIter => {
                    let it = (&x).into_iter();
                    drive(ctx, &name, it, &exp, script, term, &g, None).map(|_| ())
                }
                _ => unreachable!(),
            }
        }};
    }
    macro_rules! mut_on {
        ($x:expr) => {{
            let x = $x;
            match ik {
                IK::RowsMut => {
                    let it = x.rows_mut();
                    if TooDeeIterator::num_cols(&it) != wc {
                        ctx.count("toodee_iterator_num_cols_mismatch", 1); // not part of C08-C10 as stated: observed, not judged
                    }
                    drive(ctx, &name, it, &exp, script, term, &g, None).map(|h| {
                        for i in h {
                            poked.push(i.desc());
                            i.poke(&mut next_val)
                        }
                    })
                }
                IK::ColMut(c) => {
                    let it = x.col_mut(c);
                    let ix = |i: &ColMut<'_, u32>, k: usize| -> D { (&i[k] as *const u32 as usize, 1) };
                    drive(ctx, &name, it, &exp, script, term, &g, Some(&ix)).map(|h| {
                        for i in h {
                            poked.push(i.desc());
                            i.poke(&mut next_val)
                        }
                    })
                }
                IK::CellsMut => {
                    let it = x.cells_mut();
                    drive(ctx, &name, it, &exp, script, term, &g, None).map(|h| {
                        for i in h {
                            poked.push(i.desc());
                            i.poke(&mut next_val)
                        }
                    })
                }
                IK::MutIntoIter => {
                    let it = x.into_iter();
                    drive(ctx, &name, it, &exp, script, term, &g, None).map(|h| {
                        for i in h {
                            poked.push(i.desc());
                            i.poke(&mut next_val)
                        }
                    })
                }
                _ => unreachable!(),
            }
        }};
    }
    let is_mut = matches!(ik, IK::RowsMut | IK::ColMut(_) | IK::CellsMut | IK::MutIntoIter);
    let res = catches(|| -> Result<(), ()> {
        match (rk, is_mut) {
            (RK::SliceView, false) => {
                let v = TooDeeView::new(pc, pr, &buf);
                shared_on!(&v)
            }
            (RK::SliceViewMut, false) => {
                let v = TooDeeViewMut::new(pc, pr, &mut buf);
                shared_on!(&v)
            }
            (RK::SliceViewMutInto, false) => {
                let v: TooDeeView<'_, u32> = TooDeeView::from(TooDeeViewMut::new(pc, pr, &mut buf));
                shared_on!(&v)
            }
            (RK::ViewMutInto, false) => {
                let v: TooDeeView<'_, u32> = parent.view_mut(s, e).into();
                shared_on!(&v)
            }
            (RK::SliceViewMut, true) => {
                let mut v = TooDeeViewMut::new(pc, pr, &mut buf);
                mut_on!(&mut v)
            }
            (RK::Owned, false) => shared_on!(&parent),
            (RK::View, false) => {
                let v = parent.view(s, e);
                if v.size() != (wc, wr) {
                    ctx.violation(&name, "view-size", format!("{:?}", v.size()));
                }
                shared_on!(&v)
            }
            (RK::ViewOfView, false) => {
                let (outer, inner) = crate::recv::outer_of(win, pc, pr);
                let o = parent.view(outer.0, outer.1);
                let v = o.view(inner.0, inner.1);
                shared_on!(&v)
            }
            (RK::ViewMut, false) => {
                let v = parent.view_mut(s, e);
                shared_on!(&v)
            }
            (RK::ViewOfViewMut, false) => {
                let (outer, inner) = crate::recv::outer_of(win, pc, pr);
                let o = parent.view_mut(outer.0, outer.1);
                let v = o.view(inner.0, inner.1);
                shared_on!(&v)
            }
            (RK::ViewMutNested, false) => {
                let (outer, inner) = crate::recv::outer_of(win, pc, pr);
                let mut o = parent.view_mut(outer.0, outer.1);
                let v = o.view_mut(inner.0, inner.1);
                shared_on!(&v)
            }
            (RK::Owned, true) => mut_on!(&mut parent),
            (RK::ViewMut, true) => {
                let mut v = parent.view_mut(s, e);
                mut_on!(&mut v)
            }
            (RK::ViewMutNested, true) => {
                let (outer, inner) = crate::recv::outer_of(win, pc, pr);
                let mut o = parent.view_mut(outer.0, outer.1);
                let mut v = o.view_mut(inner.0, inner.1);
                mut_on!(&mut v)
            }
            _ => unreachable!(),
        }
    });
    let mut ok = true;
    match res {
        Err(msg) => {
            if msg.starts_with("harness:") {
                panic!("{}", msg);
            }
            ctx.violation(&name, "iter:panic", format!("script {:?} term {:?} on window {:?} of {}x{}: {}", script, term, win, pc, pr, msg));
            ok = false;
        }
        Ok(Err(())) => ok = false,
        Ok(Ok(())) => {}
    }
    // write-through / nothing else changed
    if ok {
        let mut want = before.clone();
        let mut v = 5000u32;
        for (a, l) in &poked {
            let i0 = (a - base) / 4;
            for k in 0..*l {
                want[i0 + k] = v;
                v += 1;
            }
        }
        let now: &[u32] = if on_slice { &buf } else { parent.data() };
        if now != &want[..] {
            ctx.violation(&name, "iter:write-through", format!("script {:?} term {:?} window {:?} of {}x{}: buffer {:?} expected {:?}", script, term, win, pc, pr, now, want));
            ok = false;
        }
        // yielded mutable items must be pairwise disjoint
        let mut ranges: Vec<(usize, usize)> = poked.iter().map(|(a, l)| (*a, a + l * 4)).collect();
        ranges.sort();
        for w in ranges.windows(2) {
            if w[0].1 > w[1].0 {
                ctx.violation(&name, "iter:overlap", format!("script {:?}: yielded items overlap {:x?}", script, w));
                ok = false;
            }
        }
        ctx.count("items_written_through", poked.len() as u64);
    }
    let _ = prop;
    if ok {
        ctx.detail(|| format!("{} on window {:?} of {}x{}: script {:?} then {:?} agreed with the ideal sequence ({} items written through)", name, win, pc, pr, script, term, poked.len()));
    }
    ok
}

fn alphabet(full: bool, with_idx: bool) -> Vec<Call> {
    let mut a = vec![Call::Next, Call::NextBack, Call::Len];
    let ns: Vec<N> = if full { NS.to_vec() } else { vec![N::Z, N::One, N::RemM1, N::C] };
    for n in &ns {
        a.push(Call::Nth(*n));
        a.push(Call::NthBack(*n));
    }
    if with_idx {
        for n in [N::Z, N::One, N::RemM1, N::Rem, N::Max, N::MaxDivP1, N::P63] {
            a.push(Call::Idx(n));
        }
    }
    a
}

fn scripts_for(ctx: &Ctx, ik: IK, depth_full: usize, depth_red: usize, nrandom: usize, seed_mix: u64, light: bool) -> Vec<(Vec<Call>, Term)> {
    let with_idx = matches!(ik, IK::Col(_) | IK::ColMut(_));
    let mut out: Vec<(Vec<Call>, Term)> = vec![];
    let full = alphabet(true, with_idx);
    let red = alphabet(false, with_idx && false);
    // depth 0 and 1: all terms (under Miri: one rotating term per script)
    let mut h = 0usize;
    if ctx.scale == Scale::Miri || light {
        for t in TERMS {
            out.push((vec![], t));
        }
        for a in &full {
            h += 1;
            out.push((vec![*a], TERMS[h % 7]));
        }
    } else {
        for t in TERMS {
            out.push((vec![], t));
            for a in &full {
                out.push((vec![*a], t));
            }
        }
    }
    if depth_full >= 2 {
        for a in &full {
            for b in &full {
                h += 1;
                out.push((vec![*a, *b], TERMS[h % 7]));
                out.push((vec![*a, *b], TERMS[(h / 7 + 3) % 7]));
            }
        }
    }
    if depth_full >= 3 {
        for a in &full {
            for b in &full {
                for c in &full {
                    h += 1;
                    out.push((vec![*a, *b, *c], TERMS[h % 7]));
                }
            }
        }
    }
    if depth_red >= 3 && depth_full < 3 {
        for a in &red {
            for b in &red {
                for c in &red {
                    h += 1;
                    out.push((vec![*a, *b, *c], TERMS[h % 7]));
                }
            }
        }
    }
    if depth_red >= 4 {
        for a in &red {
            for b in &red {
                for c in &red {
                    for d in &red {
                        h += 1;
                        out.push((vec![*a, *b, *c, *d], TERMS[h % 7]));
                    }
                }
            }
        }
    }
    let mut rng = Rng::from_parts(ctx.seed, seed_mix, 77);
    for _ in 0..nrandom {
        let len = rng.range(4, 12);
        let s: Vec<Call> = (0..len)
            .map(|_| {
                if rng.chance(1, 2) {
                    *rng.pick(&[Call::Next, Call::NextBack, Call::Len, Call::Nth(N::Z), Call::NthBack(N::Z), Call::Nth(N::One), Call::NthBack(N::One)])
                } else {
                    *rng.pick(&full)
                }
            })
            .collect();
        out.push((s, *rng.pick(&TERMS)));
    }
    out
}

fn run_iter_prop(ctx: &mut Ctx, prop: &'static str) {
    let (n, depth_full, depth_red, nrandom) = match (ctx.scale, ctx.tier) {
        (Scale::Miri, Tier::Quick) => (2, 1, 0, 2),
        (Scale::Miri, Tier::Thorough) => (3, 1, 0, 6),
        (Scale::Vg, _) => (3, 2, 0, 10),
        (Scale::Native, Tier::Quick) => (4, 2, 3, 30),
        (Scale::Native, Tier::Thorough) => (6, 2, 4, 200),
    };
    for (pc, pr) in shapes(n) {
        for win in windows(pc, pr) {
            let (s, e) = win;
            let (wc, wr) = (e.0 - s.0, e.1 - s.1);
            let wcz = if wr == 0 { 0 } else { wc };
            // empty windows: keep a sample of positions only
            if (wc == 0 || wr == 0) && (s.0 + 2 * s.1 + e.0 + e.1) % 3 != 0 {
                continue;
            }
            for rk in [RK::Owned, RK::View, RK::ViewOfView, RK::ViewMut, RK::ViewMutNested, RK::ViewOfViewMut, RK::ViewMutInto, RK::SliceView, RK::SliceViewMut, RK::SliceViewMutInto] {
                if matches!(rk, RK::Owned | RK::SliceView | RK::SliceViewMut | RK::SliceViewMutInto) && win != ((0, 0), (pc, pr)) {
                    continue;
                }
                // big native sweeps: nested receivers only on a subset
                if matches!(rk, RK::ViewOfView | RK::ViewOfViewMut) && (pc + pr) % 2 == 1 && ctx.scale == Scale::Native && pc > 3 {
                    continue;
                }
                let mut iks: Vec<IK> = vec![];
                let can_mut = matches!(rk, RK::Owned | RK::ViewMut | RK::ViewMutNested | RK::SliceViewMut);
                match prop {
                    "C08" => {
                        iks.push(IK::Rows);
                        if can_mut {
                            iks.push(IK::RowsMut);
                        }
                    }
                    "C09" => {
                        for c in 0..wcz {
                            iks.push(IK::Col(c));
                            if can_mut {
                                iks.push(IK::ColMut(c));
                            }
                        }
                    }
                    _ => {
                        iks.push(IK::Cells);
                        iks.push(IK::RefIntoIter);
                        if can_mut {
                            iks.push(IK::CellsMut);
                            iks.push(IK::MutIntoIter);
                        }
                    }
                }
                for ik in iks {
                    if !ctx.case(|| format!("{} parent={}x{} win={:?} recv={:?} iter={:?}", prop, pc, pr, win, rk, ik)) {
                        if ctx.done() {
                            return;
                        }
                        continue;
                    }
                    let scripts = scripts_for(ctx, ik, depth_full, depth_red, nrandom, ctx.cur_idx, false);
                    let mut okc = 0u64;
                    for (script, term) in &scripts {
                        if run_one(ctx, prop, (pc, pr), win, rk, ik, &ScriptRun { script, term: *term }) {
                            okc += 1;
                        }
                    }
                    if okc == scripts.len() as u64 {
                        ctx.nontrivial((prop, pc, pr, win, rk, ik));
                    }
                    ctx.count("scripts", scripts.len() as u64);
                }
            }
            // col(c) / col_mut(c) with c out of range must panic (C09)
            if prop == "C09" && ctx.case(|| format!("C09 parent={}x{} win={:?} col-out-of-range", pc, pr, win)) {
                let mut parent = parent_of(pc, pr);
                for c in [wcz, wcz + 1, usize::MAX, (usize::MAX / pc.max(1)).wrapping_add(1).max(wcz)] {
                    let r1 = catches(|| parent.view(s, e).col(c).len());
                    let r2 = catches(|| parent.view_mut(s, e).col(c).len());
                    let r3 = catches(|| parent.view_mut(s, e).col_mut(c).len());
                    let mut rs = vec![("View::col", r1), ("ViewMut::col", r2), ("ViewMut::col_mut", r3)];
                    if win == ((0, 0), (pc, pr)) {
                        rs.push(("TooDee::col", catches(|| parent.col(c).len())));
                        rs.push(("TooDee::col_mut", catches(|| parent.col_mut(c).len())));
                    }
                    for (n, r) in rs {
                        ctx.count("calls", 1);
                        match r {
                            Ok(l) => ctx.violation(n, "invalid-call-accepted", format!("col({}) on window {:?} of {}x{} returned an iterator of len {}", c, win, pc, pr, l)),
                            Err(_) => {
                                ctx.count("rejected", 1);
                                ctx.nontrivial(("C09rej", pc, pr, win, n, c));
                            }
                        }
                    }
                }
            }
        }
    }
    // larger parents: sampled windows, depth-1 scripts with a rotating terminal plus random scripts
    if ctx.scale == Scale::Native {
        let parents = crate::wl_insrem::big_shapes(ctx, 8);
        for (pi, (pc, pr)) in parents.into_iter().enumerate() {
            let mut rng = Rng::from_parts(ctx.seed, pi as u64, 88);
            let mut wins: Vec<Win> = vec![((0, 0), (pc, pr))];
            for _ in 0..3 {
                let s0 = rng.below(pc);
                let s1 = rng.below(pr);
                wins.push(((s0, s1), (rng.range(s0 + 1, pc), rng.range(s1 + 1, pr))));
            }
            for win in wins {
                let (s, e) = win;
                let wc = e.0 - s.0;
                for rk in [RK::Owned, RK::View, RK::ViewMut, RK::ViewMutNested, RK::ViewOfView] {
                    if rk == RK::Owned && win != ((0, 0), (pc, pr)) {
                        continue;
                    }
                    let can_mut = matches!(rk, RK::Owned | RK::ViewMut | RK::ViewMutNested);
                    let mut iks: Vec<IK> = vec![];
                    match prop {
                        "C08" => {
                            iks.push(IK::Rows);
                            if can_mut {
                                iks.push(IK::RowsMut);
                            }
                        }
                        "C09" => {
                            for c in [0, wc / 2, wc - 1] {
                                iks.push(IK::Col(c));
                                if can_mut {
                                    iks.push(IK::ColMut(c));
                                }
                            }
                        }
                        _ => {
                            iks.push(IK::Cells);
                            if can_mut {
                                iks.push(IK::CellsMut);
                            }
                        }
                    }
                    for ik in iks {
                        if !ctx.case(|| format!("{} big parent={}x{} win={:?} recv={:?} iter={:?}", prop, pc, pr, win, rk, ik)) {
                            if ctx.done() {
                                return;
                            }
                            continue;
                        }
                        let scripts = scripts_for(ctx, ik, 1, 0, 60, ctx.cur_idx, true);
                        let mut okc = 0;
                        for (script, term) in &scripts {
                            if run_one(ctx, prop, (pc, pr), win, rk, ik, &ScriptRun { script, term: *term }) {
                                okc += 1;
                            }
                        }
                        if okc == scripts.len() {
                            ctx.nontrivial((prop, "big", pc, pr, win, rk, ik));
                        }
                        ctx.count("scripts", scripts.len() as u64);
                    }
                }
            }
        }
    }
}


// ------------------------------------------------------------------------------------------------
// Giant arrays of zero-sized elements: the only way to reach dimensions near usize::MAX, where
// unchecked sums / products inside the iterators can wrap. Everything here is O(1): lengths and
// a few items are compared with arithmetic expectations (an ideal Vec cannot be built).

fn giant_shapes() -> Vec<(usize, usize)> {
    vec![
        (usize::MAX, 1),
        (1, usize::MAX),
        ((1usize << 32) + 1, (1usize << 32) - 1),
        ((1usize << 32) - 1, (1usize << 32) + 1),
        (3, usize::MAX / 3),
        (usize::MAX / 2, 2),
        (usize::MAX / 2 + 1, 1),
    ]
}

fn giant_check(ctx: &mut Ctx, name: &str, what: &str, got: Result<(usize, (usize, Option<usize>)), String>, want: usize) -> bool {
    ctx.count("iter_calls", 1);
    ctx.count("giant_zst_checks", 1);
    match got {
        Err(m) => {
            ctx.violation(name, "iter:panic", format!("{}: {}", what, m));
            false
        }
        Ok((l, sh)) => {
            if l != want || sh != (want, Some(want)) {
                ctx.violation(name, "iter:len", format!("{}: len {} size_hint {:?} expected {}", what, l, sh, want));
                false
            } else {
                true
            }
        }
    }
}

fn giant_zst(ctx: &mut Ctx, prop: &str) {
    for (c, r) in giant_shapes() {
        if !ctx.case(|| format!("{} giant zero-sized array {}x{}", prop, c, r)) {
            continue;
        }
        let total = c.checked_mul(r).expect("harness: giant shapes fit usize");
        let mut a: TooDee<()> = TooDee::from_vec(c, r, vec![(); total]);
        // receivers: the array itself, a window that cuts one column and one row (if possible), nested
        let wins: Vec<Win> = vec![((0, 0), (c, r)), ((c.min(2) - 1, r.min(2) - 1), (c, r)), ((0, 0), (c - (c > 1) as usize, r - (r > 1) as usize))];
        for (wi, (s, e)) in wins.into_iter().enumerate() {
            let (wc, wr) = (e.0 - s.0, e.1 - s.1);
            let what = format!("{}x{} window {:?}", c, r, (s, e));
            let mut ok = true;
            match prop {
                "C08" => {
                    // rows(): len, after a few steps, items have the window's width
                    ok &= giant_check(ctx, "giant/Rows", &what, catches(|| { let it = a.view(s, e); let it = it.rows(); (it.len(), it.size_hint()) }), wr);
                    ok &= giant_check(ctx, "giant/RowsMut", &what, catches(|| { let mut v = a.view_mut(s, e); let it = v.rows_mut(); (it.len(), it.size_hint()) }), wr);
                    if wi == 0 {
                        ok &= giant_check(ctx, "giant/Rows(owned)", &what, catches(|| { let it = a.rows(); (it.len(), it.size_hint()) }), wr);
                        ok &= giant_check(ctx, "giant/RowsMut(owned)", &what, catches(|| { let it = a.rows_mut(); (it.len(), it.size_hint()) }), wr);
                    }
                    let stepped = catches(|| {
                        let v = a.view(s, e);
                        let mut it = v.rows();
                        let first = it.next().map(|x| x.len());
                        let last = it.next_back().map(|x| x.len());
                        let cnt = it.len();
                        let far = it.nth(usize::MAX).is_none();
                        (first, last, cnt, far, it.len(), v.rows().count(), v.rows().last().map(|x| x.len()), v.rows().nth(wr - 1).map(|x| x.len()), v.rows().nth_back(wr - 1).map(|x| x.len()), v.rows().nth(wr).is_none())
                    });
                    ctx.count("iter_calls", 8);
                    let want_last = if wr >= 2 { Some(wc) } else { None };
                    match stepped {
                        Err(m) => {
                            ctx.violation("giant/Rows", "iter:panic", format!("{}: {}", what, m));
                            ok = false;
                        }
                        Ok(t) => {
                            if t != (Some(wc), want_last, wr.saturating_sub(2), true, 0, wr, Some(wc), Some(wc), Some(wc), true) {
                                ctx.violation("giant/Rows", "iter:item", format!("{}: observed {:?}", what, t));
                                ok = false;
                            }
                        }
                    }
                }
                "C09" => {
                    for col in [0, wc - 1] {
                        ok &= giant_check(ctx, "giant/Col", &what, catches(|| { let v = a.view(s, e); let it = v.col(col); (it.len(), it.size_hint()) }), wr);
                        ok &= giant_check(ctx, "giant/ColMut", &what, catches(|| { let mut v = a.view_mut(s, e); let it = v.col_mut(col); (it.len(), it.size_hint()) }), wr);
                        let stepped = catches(|| {
                            let v = a.view(s, e);
                            let mut it = v.col(col);
                            let f = it.next().is_some();
                            let b = it.next_back().is_some();
                            let cnt = it.len();
                            let in_range = catches(|| { let _ = &v.col(col)[wr - 1]; }).is_ok();
                            let out_range = catches(|| { let _ = &v.col(col)[wr]; }).is_err();
                            (f, b, cnt, v.col(col).nth(wr - 1).is_some(), v.col(col).nth(wr).is_none(), v.col(col).nth_back(usize::MAX).is_none(), in_range, out_range, v.col(col).count())
                        });
                        ctx.count("iter_calls", 8);
                        match stepped {
                            Err(m) => {
                                ctx.violation("giant/Col", "iter:panic", format!("{} col {}: {}", what, col, m));
                                ok = false;
                            }
                            Ok(t) => {
                                if t != (true, wr >= 2, wr.saturating_sub(2), true, true, true, true, true, wr) {
                                    ctx.violation("giant/Col", "iter:item", format!("{} col {}: observed {:?}", what, col, t));
                                    ok = false;
                                }
                            }
                        }
                    }
                    if wi == 0 {
                        ok &= giant_check(ctx, "giant/Col(owned)", &what, catches(|| { let it = a.col(c - 1); (it.len(), it.size_hint()) }), r);
                        ok &= giant_check(ctx, "giant/ColMut(owned)", &what, catches(|| { let it = a.col_mut(0); (it.len(), it.size_hint()) }), r);
                    }
                }
                _ => {
                    let wtotal = wc * wr;
                    ok &= giant_check(ctx, "giant/Cells", &what, catches(|| { let v = a.view(s, e); let it = v.cells(); (it.len(), it.size_hint()) }), wtotal);
                    ok &= giant_check(ctx, "giant/CellsMut", &what, catches(|| { let mut v = a.view_mut(s, e); let it = v.cells_mut(); (it.len(), it.size_hint()) }), wtotal);
                    if wi == 0 {
                        ok &= giant_check(ctx, "giant/Cells(owned)", &what, catches(|| { let it = a.cells(); (it.len(), it.size_hint()) }), wtotal);
                        ok &= giant_check(ctx, "giant/IntoIter(&mut owned)", &what, catches(|| { let it = (&mut a).into_iter(); (it.len(), it.size_hint()) }), wtotal);
                    }
                    let stepped = catches(|| {
                        let v = a.view(s, e);
                        let mut it = v.cells();
                        let f = it.next().is_some();
                        let b = it.next_back().is_some();
                        let l1 = it.len();
                        let j = it.nth(wc).is_some(); // row-crossing jump
                        let l2 = it.len();
                        let jb = it.nth_back(wc).is_some();
                        let l3 = it.len();
                        let far = it.nth(usize::MAX).is_none();
                        (f, b, l1, j, l2, jb, l3, far, it.len())
                    });
                    ctx.count("iter_calls", 8);
                    match stepped {
                        Err(m) => {
                            ctx.violation("giant/Cells", "iter:panic", format!("{}: {}", what, m));
                            ok = false;
                        }
                        Ok(t) => {
                            // expectations by plain arithmetic on the ideal sequence of wtotal items
                            let mut rem = wtotal;
                            let f = rem > 0;
                            rem -= f as usize;
                            let b = rem > 0;
                            rem -= b as usize;
                            let l1 = rem;
                            let j = rem > wc;
                            rem = if j { rem - wc - 1 } else { 0 };
                            let l2 = rem;
                            let jb = rem > wc;
                            rem = if jb { rem - wc - 1 } else { 0 };
                            let l3 = rem;
                            if t != (f, b, l1, j, l2, jb, l3, true, 0) {
                                ctx.violation("giant/Cells", "iter:item", format!("{}: observed {:?} expected {:?}", what, t, (f, b, l1, j, l2, jb, l3, true, 0)));
                                ok = false;
                            }
                        }
                    }
                }
            }
            if ok {
                ctx.nontrivial((prop.to_string(), "giant", c, r, s, e));
            }
        }
    }
}

pub fn run_c08(ctx: &mut Ctx) {
    run_iter_prop(ctx, "C08");
    giant_zst(ctx, "C08")
}
pub fn run_c09(ctx: &mut Ctx) {
    run_iter_prop(ctx, "C09");
    giant_zst(ctx, "C09")
}
pub fn run_c10(ctx: &mut Ctx) {
    run_iter_prop(ctx, "C10");
    giant_zst(ctx, "C10")
}
