use crate::ctx::Ctx;
pub fn run_c08(_ctx: &mut Ctx) { unimplemented!() }
pub fn run_c09(_ctx: &mut Ctx) { unimplemented!() }
pub fn run_c10(_ctx: &mut Ctx) { unimplemented!() }
