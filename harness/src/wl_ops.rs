//! C04, C13, C14, C15, C16, C17: in-place trait operations on owned arrays, views and third-party
//! implementors, judged by `ops::run_op`.
use crate::ctx::*;
use crate::elem::*;
use crate::model::*;
use crate::ops::*;
use crate::recv::*;

fn nsel(ctx: &Ctx, miri_q: usize, miri_t: usize, vg: usize, quick: usize, thorough: usize) -> usize {
    match (ctx.scale, ctx.tier) {
        (Scale::Miri, Tier::Quick) => miri_q,
        (Scale::Miri, Tier::Thorough) => miri_t,
        (Scale::Vg, _) => vg,
        (Scale::Native, Tier::Quick) => quick,
        (Scale::Native, Tier::Thorough) => thorough,
    }
}

fn default_keys(c: usize, r: usize) -> u32 {
    ((c * 7 + r * 3) % 5) as u32
}

/// Receiver placements for a receiver of shape (wc, wr): (recv, parent shape, window)
fn placements(wc: usize, wr: usize, full: bool) -> Vec<(Recv, (usize, usize), Win)> {
    let mut v = vec![];
    v.push((Recv::Owned, (wc, wr), full_win(wc, wr)));
    v.push((Recv::ThinOwned, (wc, wr), full_win(wc, wr)));
    v.push((Recv::Direct, (wc, wr), full_win(wc, wr)));
    if wc > 0 {
        // interior window
        v.push((Recv::View, (wc + 2, wr + 2), ((1, 1), (1 + wc, 1 + wr))));
        v.push((Recv::ThinView, (wc + 3, wr + 1), ((2, 0), (2 + wc, wr))));
        v.push((Recv::Nested, (wc + 3, wr + 3), ((2, 1), (2 + wc, 1 + wr))));
        if full {
            // touching edges
            v.push((Recv::View, (wc + 1, wr + 1), ((0, 0), (wc, wr))));
            v.push((Recv::View, (wc + 1, wr + 1), ((1, 1), (1 + wc, 1 + wr))));
            v.push((Recv::View, (wc, wr), full_win(wc, wr)));
            v.push((Recv::Nested, (wc, wr), full_win(wc, wr)));
        }
    } else {
        // empty receivers: zero-extent windows at several positions
        v.push((Recv::View, (0, 0), ((0, 0), (0, 0))));
        v.push((Recv::View, (3, 2), ((0, 0), (0, 0))));
        v.push((Recv::View, (3, 2), ((1, 1), (1, 1))));
        v.push((Recv::View, (3, 2), ((1, 0), (3, 0))));
        v.push((Recv::View, (3, 2), ((0, 1), (0, 2))));
        v.push((Recv::ThinView, (3, 2), ((1, 1), (2, 1))));
        v.push((Recv::Nested, (3, 3), ((1, 1), (1, 2))));
    }
    v
}

fn idx_list(dim: usize) -> Vec<usize> {
    let mut v: Vec<usize> = (0..=dim + 1).collect();
    v.push(usize::MAX);
    v
}

fn run_ops_both(ctx: &mut Ctx, prop: &str, pshape: (usize, usize), win: Win, recv: Recv, ops: &[Op], keys: &dyn Fn(usize, usize) -> u32, twin: bool, tok: bool, thin: u64) {
    for op in ops {
        if !ctx.thin(thin) {
            continue;
        }
        let oc = OpCase { pshape, win, recv, op: *op, keys, twin };
        let o = run_op::<Kv>(ctx, &oc);
        let wsize = ((win.1).0 - (win.0).0, (win.1).1 - (win.0).1);
        if o != Outcome::Failed {
            ctx.nontrivial((prop, recv, wsize, pshape, win, *op, o == Outcome::Accepted, "Kv"));
        }
        if tok && !op.copy_only() {
            let o = run_op::<Tok>(ctx, &oc);
            if o != Outcome::Failed {
                ctx.nontrivial((prop, recv, wsize, pshape, win, *op, o == Outcome::Accepted, "Tok"));
            }
        }
    }
}

// ================================================================================================
// C13

pub fn run_c13(ctx: &mut Ctx) {
    let n = nsel(ctx, 2, 3, 3, 5, 8);
    for (wc, wr) in shapes(n) {
        for (recv, pshape, win) in placements(wc, wr, true) {
            if !ctx.case(|| format!("C13 recv={:?} shape={}x{} parent={}x{} win={:?}", recv, wc, wr, pshape.0, pshape.1, win)) {
                if ctx.done() {
                    return;
                }
                continue;
            }
            let mut ops = vec![Op::Fill];
            let ci = idx_list(wc);
            let ri = idx_list(wr);
            for &r1 in &ri {
                for &r2 in &ri {
                    ops.push(Op::SwapRows(r1, r2));
                    ops.push(Op::RowPair(r1, r2));
                }
            }
            for &c1 in &ci {
                for &c2 in &ci {
                    ops.push(Op::SwapCols(c1, c2));
                }
            }
            for &c1 in &ci {
                for &r1 in &ri {
                    for &c2 in &ci {
                        for &r2 in &ri {
                            ops.push(Op::Swap((c1, r1), (c2, r2)));
                        }
                    }
                }
            }
            run_ops_both(ctx, "C13", pshape, win, recv, &ops, &default_keys, false, true, 12);
        }
    }
}

// ================================================================================================
// C14

pub fn run_c14(ctx: &mut Ctx) {
    let n = nsel(ctx, 2, 3, 3, 4, 6);
    let ncw = nsel(ctx, 2, 2, 3, 4, 5);
    for (wc, wr) in shapes(n) {
        for (recv, pshape, win) in placements(wc, wr, false) {
            if !ctx.case(|| format!("C14 recv={:?} shape={}x{} parent={}x{} win={:?}", recv, wc, wr, pshape.0, pshape.1, win)) {
                if ctx.done() {
                    return;
                }
                continue;
            }
            let mut ops = vec![];
            for d in [-1isize, 0, 1] {
                ops.push(Op::CopyFromSlice(d));
                ops.push(Op::CloneFromSlice(d));
            }
            for k in [SrcKind::Owned, SrcKind::View, SrcKind::ViewMut] {
                for rel in [SizeRel::Same, SizeRel::ColsPlus1, SizeRel::RowsPlus1, SizeRel::Transposed, SizeRel::Flat] {
                    ops.push(Op::CopyFromToodee(k, rel));
                    ops.push(Op::CloneFromToodee(k, rel));
                }
            }
            if wc <= ncw && wr <= ncw {
                // every source rectangle (valid and a ring of invalid ones) x every destination corner
                for s0 in 0..=wc + 1 {
                    for s1 in 0..=wr + 1 {
                        for e0 in 0..=wc + 1 {
                            for e1 in 0..=wr + 1 {
                                // keep invalid rectangles to a thin sample: they must all be rejected
                                let valid = s0 <= e0 && s1 <= e1 && e0 <= wc && e1 <= wr;
                                if !valid && (s0 + 2 * s1 + 3 * e0 + 5 * e1) % 4 != 0 {
                                    continue;
                                }
                                for d0 in 0..=wc + 1 {
                                    for d1 in 0..=wr + 1 {
                                        ops.push(Op::CopyWithin((s0, s1), (e0, e1), (d0, d1)));
                                    }
                                }
                            }
                        }
                    }
                }
            }
            run_ops_both(ctx, "C14", pshape, win, recv, &ops, &default_keys, false, true, 6);
        }
    }
}

// ================================================================================================
// C15

pub fn run_c15(ctx: &mut Ctx) {
    let n = nsel(ctx, 3, 4, 4, 8, 16);
    for (wc, wr) in shapes(n) {
        for (recv, pshape, win) in placements(wc, wr, false) {
            if wc > 8 && matches!(recv, Recv::Direct | Recv::ThinView) {
                continue;
            }
            if !ctx.case(|| format!("C15 recv={:?} shape={}x{} parent={}x{} win={:?}", recv, wc, wr, pshape.0, pshape.1, win)) {
                if ctx.done() {
                    return;
                }
                continue;
            }
            let mut ops = vec![Op::FlipRows, Op::FlipCols];
            for mc in idx_list(wc) {
                for mr in idx_list(wr) {
                    ops.push(Op::Translate(mc, mr));
                }
            }
            let tok = wc * wr <= 36;
            run_ops_both(ctx, "C15", pshape, win, recv, &ops, &default_keys, false, tok, 1);
        }
    }
}

// ================================================================================================
// C16 / C17

fn run_sorts(ctx: &mut Ctx, prop: &'static str, by_row: bool) {
    let n = nsel(ctx, 2, 3, 3, 5, 6);
    let nthin = nsel(ctx, 2, 2, 3, 4, 5);
    for (wc, wr) in shapes(n) {
        for (recv, pshape, win) in placements(wc, wr, false) {
            if matches!(recv, Recv::Direct) {
                continue;
            }
            if matches!(recv, Recv::Nested | Recv::ThinView) && (wc > nthin || wr > nthin) {
                continue;
            }
            let line_len = if by_row { wc } else { wr };
            let nlines = if by_row { wr } else { wc };
            let npat = 3usize.pow(line_len as u32);
            // one case per (receiver placement, line index): all tie patterns x variants inside
            for idx in idx_list(nlines) {
                if !ctx.case(|| format!("{} recv={:?} shape={}x{} parent={}x{} win={:?} line={}", prop, recv, wc, wr, pshape.0, pshape.1, win, idx)) {
                    if ctx.done() {
                        return;
                    }
                    continue;
                }
                let vars: &[SortVar] = if by_row { &ROW_SORTS } else { &COL_SORTS };
                let pats: Vec<usize> = if idx < nlines { (0..npat).collect() } else { vec![0, npat / 2] };
                for pat in pats {
                    let ws = win.0;
                    let keys = move |c: usize, r: usize| -> u32 {
                        // window coordinates of this parent cell
                        let (wc_, wr_) = (c.wrapping_sub(ws.0), r.wrapping_sub(ws.1));
                        let (pos, line) = if by_row { (wc_, wr_) } else { (wr_, wc_) };
                        if line == idx && pos < line_len {
                            ((pat / 3usize.pow(pos as u32)) % 3) as u32
                        } else {
                            ((c * 5 + r * 11) % 7) as u32
                        }
                    };
                    let mut ops = vec![];
                    for &v in vars {
                        ops.push(Op::Sort(v, idx, false));
                        if !v.is_ord() {
                            ops.push(Op::Sort(v, idx, true));
                        }
                    }
                    let sorted_already = {
                        let digits: Vec<usize> = (0..line_len).map(|p| (pat / 3usize.pow(p as u32)) % 3).collect();
                        digits.windows(2).all(|w| w[0] <= w[1])
                    };
                    for op in &ops {
                        if !ctx.thin(2) {
                            continue;
                        }
                        let oc = OpCase { pshape, win, recv, op: *op, keys: &keys, twin: matches!(recv, Recv::View | Recv::Nested) };
                        let o = run_op::<Kv>(ctx, &oc);
                        if o != Outcome::Failed && (!sorted_already || o == Outcome::Rejected) {
                            ctx.nontrivial((prop, recv, (wc, wr), *op, pat, "Kv"));
                        }
                        if (pat % 3 == 0) || ctx.tier == Tier::Thorough {
                            let o = run_op::<Tok>(ctx, &oc);
                            if o != Outcome::Failed && (!sorted_already || o == Outcome::Rejected) {
                                ctx.nontrivial((prop, recv, (wc, wr), *op, pat, "Tok"));
                            }
                        }
                    }
                }
            }
        }
    }
}

pub fn run_c16(ctx: &mut Ctx) {
    run_sorts(ctx, "C16", true)
}
pub fn run_c17(ctx: &mut Ctx) {
    run_sorts(ctx, "C17", false)
}

// ================================================================================================
// C04

/// The operation list for a receiver of size (wc, wr): every operation kind, valid arguments
/// (exhaustive where cheap, seeded-random otherwise).
pub fn c04_ops(wc: usize, wr: usize, rng: &mut Rng) -> Vec<Op> {
    let mut ops = vec![Op::Fill, Op::FlipRows, Op::FlipCols];
    for r in 0..wr {
        for c in 0..wc {
            if (c + r) % 2 == 0 {
                ops.push(Op::SetCoord(c, r));
            } else {
                ops.push(Op::SetRowCol(c, r));
            }
        }
    }
    for r1 in 0..wr {
        for r2 in 0..wr {
            ops.push(Op::SwapRows(r1, r2));
            if r1 != r2 {
                ops.push(Op::RowPair(r1, r2));
            }
        }
    }
    for c1 in 0..wc {
        for c2 in 0..wc {
            ops.push(Op::SwapCols(c1, c2));
        }
    }
    for _ in 0..6 {
        ops.push(Op::Swap((rng.below(wc), rng.below(wr)), (rng.below(wc), rng.below(wr))));
    }
    for w in WALKS {
        ops.push(Op::RowsMut(w));
        ops.push(Op::CellsMut(w));
        for c in 0..wc {
            ops.push(Op::ColMut(c, w));
        }
    }
    ops.push(Op::CopyFromSlice(0));
    ops.push(Op::CloneFromSlice(0));
    for k in [SrcKind::Owned, SrcKind::View, SrcKind::ViewMut] {
        ops.push(Op::CopyFromToodee(k, SizeRel::Same));
        ops.push(Op::CloneFromToodee(k, SizeRel::Same));
    }
    for _ in 0..8 {
        let s0 = rng.below(wc + 1);
        let s1 = rng.below(wr + 1);
        let e0 = rng.range(s0, wc);
        let e1 = rng.range(s1, wr);
        let d0 = rng.below(wc - (e0 - s0) + 1);
        let d1 = rng.below(wr - (e1 - s1) + 1);
        ops.push(Op::CopyWithin((s0, s1), (e0, e1), (d0, d1)));
    }
    for v in ROW_SORTS {
        for r in 0..wr {
            ops.push(Op::Sort(v, r, rng.chance(1, 2)));
        }
    }
    for v in COL_SORTS {
        for c in 0..wc {
            ops.push(Op::Sort(v, c, rng.chance(1, 2)));
        }
    }
    for mc in 0..=wc {
        for mr in 0..=wr {
            ops.push(Op::Translate(mc, mr));
        }
    }
    ops
}

pub fn run_c04(ctx: &mut Ctx) {
    let n = nsel(ctx, 2, 3, 3, 5, 7);
    for (pc, pr) in shapes(n) {
        if pc == 0 {
            continue;
        }
        for win in windows(pc, pr) {
            let wc = (win.1).0 - (win.0).0;
            let wr = (win.1).1 - (win.0).1;
            if wc == 0 || wr == 0 || (wc == pc && wr == pr) {
                continue; // need a proper, non-empty sub-rectangle
            }
            for recv in [Recv::View, Recv::Nested, Recv::ThinView] {
                if !ctx.case(|| format!("C04 recv={:?} parent={}x{} win={:?}", recv, pc, pr, win)) {
                    if ctx.done() {
                        return;
                    }
                    continue;
                }
                let mut rng = Rng::from_parts(ctx.seed, ctx.cur_idx, 4);
                let ops = c04_ops(wc, wr, &mut rng);
                let keys = |c: usize, r: usize| ((c * 3 + r * 5 + (c * r) % 3) % 4) as u32;
                run_ops_both(ctx, "C04", (pc, pr), win, recv, &ops, &keys, recv != Recv::ThinView, true, 1);
            }
        }
    }
}
