use crate::ctx::Ctx;
pub fn run_c04(_ctx: &mut Ctx) { unimplemented!() }
pub fn run_c13(_ctx: &mut Ctx) { unimplemented!() }
pub fn run_c14(_ctx: &mut Ctx) { unimplemented!() }
pub fn run_c15(_ctx: &mut Ctx) { unimplemented!() }
pub fn run_c16(_ctx: &mut Ctx) { unimplemented!() }
pub fn run_c17(_ctx: &mut Ctx) { unimplemented!() }
