//! C04, C13, C14, C15, C16, C17: in-place trait operations on owned arrays, views and third-party
//! implementors, judged by `ops::run_op`.
use crate::ctx::*;
use crate::elem::*;
use crate::model::*;
use crate::ops::*;
use crate::recv::*;
use crate::wl_insrem::big_shapes;

fn nsel(ctx: &Ctx, miri_q: usize, miri_t: usize, vg: usize, quick: usize, thorough: usize) -> usize {
    match (ctx.scale, ctx.tier) {
        (Scale::Miri, Tier::Quick) => miri_q,
        (Scale::Miri, Tier::Thorough) => miri_t,
        (Scale::Vg, _) => vg,
        (Scale::Native, Tier::Quick) => quick,
        (Scale::Native, Tier::Thorough) => thorough,
    }
}

fn default_keys(c: usize, r: usize) -> u32 {
    ((c * 7 + r * 3) % 5) as u32
}

/// Receiver placements for a receiver of shape (wc, wr): (recv, parent shape, window)
fn placements(wc: usize, wr: usize, full: bool) -> Vec<(Recv, (usize, usize), Win)> {
    let mut v = vec![];
    v.push((Recv::Owned, (wc, wr), full_win(wc, wr)));
    v.push((Recv::ThinOwned, (wc, wr), full_win(wc, wr)));
    v.push((Recv::Direct, (wc, wr), full_win(wc, wr)));
    if wc > 0 {
        // interior window
        v.push((Recv::View, (wc + 2, wr + 2), ((1, 1), (1 + wc, 1 + wr))));
        v.push((Recv::ThinView, (wc + 3, wr + 1), ((2, 0), (2 + wc, wr))));
        v.push((Recv::Nested, (wc + 3, wr + 3), ((2, 1), (2 + wc, 1 + wr))));
        v.push((Recv::Nested3, (wc + 4, wr + 4), ((2, 2), (2 + wc, 2 + wr))));
        v.push((Recv::DirectLong, (wc, wr + 2), ((0, 0), (wc, wr))));
        if full {
            // touching edges
            v.push((Recv::View, (wc + 1, wr + 1), ((0, 0), (wc, wr))));
            v.push((Recv::View, (wc + 1, wr + 1), ((1, 1), (1 + wc, 1 + wr))));
            v.push((Recv::View, (wc, wr), full_win(wc, wr)));
            v.push((Recv::Nested, (wc, wr), full_win(wc, wr)));
        }
    } else {
        // empty receivers: zero-extent windows at several positions
        v.push((Recv::View, (0, 0), ((0, 0), (0, 0))));
        v.push((Recv::View, (3, 2), ((0, 0), (0, 0))));
        v.push((Recv::View, (3, 2), ((1, 1), (1, 1))));
        v.push((Recv::View, (3, 2), ((1, 0), (3, 0))));
        v.push((Recv::View, (3, 2), ((0, 1), (0, 2))));
        v.push((Recv::ThinView, (3, 2), ((1, 1), (2, 1))));
        v.push((Recv::Nested, (3, 3), ((1, 1), (1, 2))));
    }
    v
}

fn idx_list(dim: usize) -> Vec<usize> {
    let mut v: Vec<usize> = (0..=dim + 1).collect();
    v.push(usize::MAX);
    v
}


/// Candidate indices for a dimension in the sampled (big-shape) sweeps.
fn cand(dim: usize) -> Vec<usize> {
    let mut v = vec![0, 1, dim / 2, dim.saturating_sub(1), dim, dim + 1, usize::MAX];
    v.sort_unstable();
    v.dedup();
    v
}

fn big_placements(wc: usize, wr: usize) -> Vec<(Recv, (usize, usize), Win)> {
    vec![
        (Recv::Owned, (wc, wr), full_win(wc, wr)),
        (Recv::View, (wc + 3, wr + 2), ((2, 1), (2 + wc, 1 + wr))),
        (Recv::ThinOwned, (wc, wr), full_win(wc, wr)),
        (Recv::Nested, (wc + 2, wr + 2), ((1, 1), (1 + wc, 1 + wr))),
        (Recv::DirectLong, (wc, wr + 1), ((0, 0), (wc, wr))),
    ]
}

fn run_ops_both(ctx: &mut Ctx, prop: &str, pshape: (usize, usize), win: Win, recv: Recv, ops: &[Op], keys: &dyn Fn(usize, usize) -> u32, twin: bool, tok: bool, thin: u64) {
    for op in ops {
        if !ctx.thin(thin) {
            continue;
        }
        let oc = OpCase { pshape, win, recv, op: *op, keys, twin, spare: 0 };
        let o = run_op::<Kv>(ctx, &oc);
        let wsize = ((win.1).0 - (win.0).0, (win.1).1 - (win.0).1);
        if o != Outcome::Failed {
            ctx.nontrivial((prop, recv, wsize, pshape, win, *op, o == Outcome::Accepted, "Kv"));
        }
        if matches!(recv, Recv::Owned | Recv::ThinOwned | Recv::Direct) && pshape.0 > 0 {
            // same call on a buffer with spare capacity (>= one row, and once less than one row)
            for spare in [pshape.0 + 2, 1] {
                let oc2 = OpCase { pshape, win, recv, op: *op, keys, twin, spare };
                let o = run_op::<Kv>(ctx, &oc2);
                if o != Outcome::Failed {
                    ctx.nontrivial((prop, recv, wsize, pshape, win, *op, o == Outcome::Accepted, "Kv", spare));
                }
                if !matches!(op, Op::SwapRows(..) | Op::Sort(..) | Op::Translate(..) | Op::CopyWithin(..) | Op::FlipRows) {
                    break; // the second capacity state only for the operations that move whole rows
                }
            }
        }
        if tok && !op.copy_only() {
            let o = run_op::<Tok>(ctx, &oc);
            if o != Outcome::Failed {
                ctx.nontrivial((prop, recv, wsize, pshape, win, *op, o == Outcome::Accepted, "Tok"));
            }
            // zero-sized elements: contents are indistinguishable, but accept/reject, panics and drop
            // conservation are still judged
            if matches!(op, Op::Fill | Op::Swap(..) | Op::SwapRows(..) | Op::SwapCols(..) | Op::RowPair(..) | Op::Sort(..) | Op::Translate(..) | Op::FlipRows | Op::FlipCols | Op::CloneFromSlice(_) | Op::CloneFromToodee(..)) {
                let o = run_op::<Zst>(ctx, &oc);
                if o != Outcome::Failed {
                    ctx.nontrivial((prop, recv, wsize, pshape, win, *op, o == Outcome::Accepted, "Zst"));
                }
            }
        }
        // 1- and 2-byte Copy elements for the copy family (paths specialised on the element size)
        if matches!(op, Op::CopyFromSlice(_) | Op::CopyFromToodee(..) | Op::CopyWithin(..) | Op::CloneFromSlice(_)) {
            let o = if (wsize.0 + wsize.1) % 2 == 0 { run_op::<Sm8>(ctx, &oc) } else { run_op::<Sm16>(ctx, &oc) };
            if o != Outcome::Failed {
                ctx.nontrivial((prop, recv, wsize, pshape, win, *op, o == Outcome::Accepted, "Sm"));
            }
        }
    }
}

// ================================================================================================
// C13

pub fn run_c13(ctx: &mut Ctx) {
    let n = nsel(ctx, 2, 3, 3, 5, 8);
    for (wc, wr) in shapes(n) {
        for (recv, pshape, win) in placements(wc, wr, true) {
            if !ctx.case(|| format!("C13 recv={:?} shape={}x{} parent={}x{} win={:?}", recv, wc, wr, pshape.0, pshape.1, win)) {
                if ctx.done() {
                    return;
                }
                continue;
            }
            let mut ops = vec![Op::Fill];
            let ci = idx_list(wc);
            let ri = idx_list(wr);
            for &r1 in &ri {
                for &r2 in &ri {
                    ops.push(Op::SwapRows(r1, r2));
                    ops.push(Op::RowPair(r1, r2));
                }
            }
            for &c1 in &ci {
                for &c2 in &ci {
                    ops.push(Op::SwapCols(c1, c2));
                }
            }
            for &c1 in &ci {
                for &r1 in &ri {
                    for &c2 in &ci {
                        for &r2 in &ri {
                            ops.push(Op::Swap((c1, r1), (c2, r2)));
                        }
                    }
                }
            }
            run_ops_both(ctx, "C13", pshape, win, recv, &ops, &default_keys, false, true, 12);
        }
    }
    // larger shapes: sampled index pairs
    for (wc, wr) in big_shapes(ctx, 13) {
        for (recv, pshape, win) in big_placements(wc, wr) {
            if !ctx.case(|| format!("C13 big recv={:?} shape={}x{}", recv, wc, wr)) {
                if ctx.done() {
                    return;
                }
                continue;
            }
            let mut rng = Rng::from_parts(ctx.seed, ctx.cur_idx, 13);
            let mut ops = vec![Op::Fill];
            for &a in &cand(wr) {
                for &b in &cand(wr) {
                    ops.push(Op::SwapRows(a, b));
                    ops.push(Op::RowPair(a, b));
                }
            }
            for &a in &cand(wc) {
                for &b in &cand(wc) {
                    ops.push(Op::SwapCols(a, b));
                }
            }
            for _ in 0..40 {
                ops.push(Op::Swap((*rng.pick(&cand(wc)), *rng.pick(&cand(wr))), (*rng.pick(&cand(wc)), *rng.pick(&cand(wr)))));
                ops.push(Op::Swap((rng.below(wc), rng.below(wr)), (rng.below(wc), rng.below(wr))));
            }
            run_ops_both(ctx, "C13", pshape, win, recv, &ops, &default_keys, false, wc * wr <= 400, 12);
        }
    }
    crate::wl_access::giant_misc(ctx, "C13");
}

// ================================================================================================
// C14

pub fn run_c14(ctx: &mut Ctx) {
    let n = nsel(ctx, 2, 3, 3, 4, 6);
    let ncw = nsel(ctx, 2, 2, 3, 4, 5);
    for (wc, wr) in shapes(n) {
        for (recv, pshape, win) in placements(wc, wr, false) {
            if !ctx.case(|| format!("C14 recv={:?} shape={}x{} parent={}x{} win={:?}", recv, wc, wr, pshape.0, pshape.1, win)) {
                if ctx.done() {
                    return;
                }
                continue;
            }
            let mut ops = vec![];
            for d in [-1isize, 0, 1] {
                ops.push(Op::CopyFromSlice(d));
                ops.push(Op::CloneFromSlice(d));
            }
            for k in [SrcKind::Owned, SrcKind::View, SrcKind::ViewMut] {
                for rel in [SizeRel::Same, SizeRel::ColsPlus1, SizeRel::RowsPlus1, SizeRel::RowsMinus1, SizeRel::ColsMinus1, SizeRel::Transposed, SizeRel::Flat] {
                    ops.push(Op::CopyFromToodee(k, rel));
                    ops.push(Op::CloneFromToodee(k, rel));
                }
            }
            if wc <= ncw && wr <= ncw {
                // every source rectangle (valid and a ring of invalid ones) x every destination corner
                for s0 in 0..=wc + 1 {
                    for s1 in 0..=wr + 1 {
                        for e0 in 0..=wc + 1 {
                            for e1 in 0..=wr + 1 {
                                // keep invalid rectangles to a thin sample: they must all be rejected
                                let valid = s0 <= e0 && s1 <= e1 && e0 <= wc && e1 <= wr;
                                if !valid && (s0 + 2 * s1 + 3 * e0 + 5 * e1) % 4 != 0 {
                                    continue;
                                }
                                for d0 in 0..=wc + 1 {
                                    for d1 in 0..=wr + 1 {
                                        ops.push(Op::CopyWithin((s0, s1), (e0, e1), (d0, d1)));
                                    }
                                }
                            }
                        }
                    }
                }
            }
            run_ops_both(ctx, "C14", pshape, win, recv, &ops, &default_keys, false, true, 6);
        }
    }
    for (wc, wr) in big_shapes(ctx, 14) {
        for (recv, pshape, win) in big_placements(wc, wr) {
            if !ctx.case(|| format!("C14 big recv={:?} shape={}x{}", recv, wc, wr)) {
                if ctx.done() {
                    return;
                }
                continue;
            }
            let mut rng = Rng::from_parts(ctx.seed, ctx.cur_idx, 14);
            let mut ops = vec![];
            for d in [-1isize, 0, 1] {
                ops.push(Op::CopyFromSlice(d));
                ops.push(Op::CloneFromSlice(d));
            }
            for k in [SrcKind::Owned, SrcKind::View, SrcKind::ViewMut] {
                for rel in [SizeRel::Same, SizeRel::ColsPlus1, SizeRel::RowsMinus1, SizeRel::Transposed] {
                    ops.push(Op::CopyFromToodee(k, rel));
                    ops.push(Op::CloneFromToodee(k, rel));
                }
            }
            for i in 0..80 {
                let s0 = rng.below(wc + 1);
                let s1 = rng.below(wr + 1);
                let e0 = rng.range(s0, wc);
                let e1 = rng.range(s1, wr);
                let (w, h) = (e0 - s0, e1 - s1);
                // mostly valid, overlapping placements; every fourth one just off the edge
                let (d0, d1) = if i % 4 == 3 { (wc - w + rng.below(2), wr - h + 1 - rng.below(2)) } else { (rng.below(wc - w + 1), rng.below(wr - h + 1)) };
                ops.push(Op::CopyWithin((s0, s1), (e0, e1), (d0, d1)));
            }
            run_ops_both(ctx, "C14", pshape, win, recv, &ops, &default_keys, false, wc * wr <= 400, 6);
        }
    }
}

// ================================================================================================
// C15

pub fn run_c15(ctx: &mut Ctx) {
    let n = nsel(ctx, 3, 4, 4, 8, 22);
    for (wc, wr) in shapes(n) {
        for (recv, pshape, win) in placements(wc, wr, false) {
            if wc > 8 && matches!(recv, Recv::Direct | Recv::ThinView | Recv::Nested) {
                continue;
            }
            if !ctx.case(|| format!("C15 recv={:?} shape={}x{} parent={}x{} win={:?}", recv, wc, wr, pshape.0, pshape.1, win)) {
                if ctx.done() {
                    return;
                }
                continue;
            }
            let mut ops = vec![Op::FlipRows, Op::FlipCols];
            for mc in idx_list(wc) {
                for mr in idx_list(wr) {
                    ops.push(Op::Translate(mc, mr));
                }
            }
            let tok = wc * wr <= 36;
            run_ops_both(ctx, "C15", pshape, win, recv, &ops, &default_keys, false, tok, 1);
        }
    }
    for (wc, wr) in big_shapes(ctx, 15) {
        if wc <= n && wr <= n {
            continue;
        }
        for (recv, pshape, win) in big_placements(wc, wr) {
            if !ctx.case(|| format!("C15 big recv={:?} shape={}x{}", recv, wc, wr)) {
                if ctx.done() {
                    return;
                }
                continue;
            }
            let mut rng = Rng::from_parts(ctx.seed, ctx.cur_idx, 15);
            let mut ops = vec![Op::FlipRows, Op::FlipCols];
            for &mc in &cand(wc) {
                for &mr in &cand(wr) {
                    ops.push(Op::Translate(mc, mr));
                }
            }
            for _ in 0..30 {
                ops.push(Op::Translate(rng.below(wc + 1), rng.below(wr + 1)));
            }
            run_ops_both(ctx, "C15", pshape, win, recv, &ops, &default_keys, false, wc * wr <= 200, 1);
        }
    }
}

// ================================================================================================
// C16 / C17

fn run_sorts(ctx: &mut Ctx, prop: &'static str, by_row: bool) {
    let n = nsel(ctx, 2, 3, 3, 5, 6);
    let nthin = nsel(ctx, 2, 2, 3, 4, 5);
    for (wc, wr) in shapes(n) {
        for (recv, pshape, win) in placements(wc, wr, false) {
            if matches!(recv, Recv::Direct) {
                continue;
            }
            if matches!(recv, Recv::Nested | Recv::ThinView) && (wc > nthin || wr > nthin) {
                continue;
            }
            let line_len = if by_row { wc } else { wr };
            let nlines = if by_row { wr } else { wc };
            let npat = 3usize.pow(line_len as u32);
            // one case per (receiver placement, line index): all tie patterns x variants inside
            for idx in idx_list(nlines) {
                if !ctx.case(|| format!("{} recv={:?} shape={}x{} parent={}x{} win={:?} line={}", prop, recv, wc, wr, pshape.0, pshape.1, win, idx)) {
                    if ctx.done() {
                        return;
                    }
                    continue;
                }
                let vars: &[SortVar] = if by_row { &ROW_SORTS } else { &COL_SORTS };
                let pats: Vec<usize> = if idx < nlines { (0..npat).collect() } else { vec![0, npat / 2] };
                for pat in pats {
                    let ws = win.0;
                    let keys = move |c: usize, r: usize| -> u32 {
                        // window coordinates of this parent cell
                        let (wc_, wr_) = (c.wrapping_sub(ws.0), r.wrapping_sub(ws.1));
                        let (pos, line) = if by_row { (wc_, wr_) } else { (wr_, wc_) };
                        if line == idx && pos < line_len {
                            ((pat / 3usize.pow(pos as u32)) % 3) as u32
                        } else {
                            ((c * 5 + r * 11) % 7) as u32
                        }
                    };
                    let mut ops = vec![];
                    for &v in vars {
                        ops.push(Op::Sort(v, idx, false));
                        if !v.is_ord() {
                            ops.push(Op::Sort(v, idx, true));
                        }
                    }
                    let sorted_already = {
                        let digits: Vec<usize> = (0..line_len).map(|p| (pat / 3usize.pow(p as u32)) % 3).collect();
                        digits.windows(2).all(|w| w[0] <= w[1])
                    };
                    for op in &ops {
                        if !ctx.thin(2) {
                            continue;
                        }
                        let oc = OpCase { pshape, win, recv, op: *op, keys: &keys, twin: matches!(recv, Recv::View | Recv::Nested), spare: if matches!(recv, Recv::Owned | Recv::ThinOwned) && pat % 2 == 1 { pshape.0 + 3 } else { 0 } };
                        let o = run_op::<Kv>(ctx, &oc);
                        if o != Outcome::Failed && (!sorted_already || o == Outcome::Rejected) {
                            ctx.nontrivial((prop, recv, (wc, wr), *op, pat, "Kv"));
                        }
                        if (pat % 3 == 0) || ctx.tier == Tier::Thorough {
                            let o = run_op::<Tok>(ctx, &oc);
                            if o != Outcome::Failed && (!sorted_already || o == Outcome::Rejected) {
                                ctx.nontrivial((prop, recv, (wc, wr), *op, pat, "Tok"));
                            }
                        }
                    }
                }
            }
        }
    }
    // larger shapes: random key lines over {0,1,2} (long runs of ties), sampled line indices
    for (wc, wr) in big_shapes(ctx, if by_row { 16 } else { 17 }) {
        for (recv, pshape, win) in big_placements(wc, wr) {
            if !ctx.case(|| format!("{} big recv={:?} shape={}x{}", prop, recv, wc, wr)) {
                if ctx.done() {
                    return;
                }
                continue;
            }
            let mut rng = Rng::from_parts(ctx.seed, ctx.cur_idx, 16);
            let line_len = if by_row { wc } else { wr };
            let nlines = if by_row { wr } else { wc };
            let vars: &[SortVar] = if by_row { &ROW_SORTS } else { &COL_SORTS };
            for &idx in &cand(nlines) {
                for rep in 0..3 {
                    // key line generators: random, descending with ties, few distinct values
                    let line: Vec<u32> = (0..line_len)
                        .map(|p| match rep {
                            0 => rng.below(3) as u32,
                            1 => (2 - (p * 3 / line_len.max(1)).min(2)) as u32,
                            _ => if rng.chance(1, 8) { 1 } else { 0 },
                        })
                        .collect();
                    let ws = win.0;
                    let keys = |c: usize, r: usize| -> u32 {
                        let (wc_, wr_) = (c.wrapping_sub(ws.0), r.wrapping_sub(ws.1));
                        let (pos, l) = if by_row { (wc_, wr_) } else { (wr_, wc_) };
                        if l == idx && pos < line_len {
                            line[pos]
                        } else {
                            ((c * 5 + r * 11) % 7) as u32
                        }
                    };
                    for &v in vars {
                        let op = Op::Sort(v, idx, rep == 1 && !v.is_ord());
                        let oc = OpCase { pshape, win, recv, op, keys: &keys, twin: matches!(recv, Recv::View | Recv::Nested), spare: if matches!(recv, Recv::Owned | Recv::ThinOwned) && rep == 2 { pshape.0 * 2 + 1 } else { 0 } };
                        let o = run_op::<Kv>(ctx, &oc);
                        if o != Outcome::Failed {
                            ctx.nontrivial((prop, "big", recv, (wc, wr), op, rep, "Kv"));
                        }
                        if wc * wr <= 200 && rep == 0 {
                            let o = run_op::<Tok>(ctx, &oc);
                            if o != Outcome::Failed {
                                ctx.nontrivial((prop, "big", recv, (wc, wr), op, rep, "Tok"));
                            }
                        }
                    }
                }
            }
        }
    }
}

pub fn run_c16(ctx: &mut Ctx) {
    run_sorts(ctx, "C16", true)
}
pub fn run_c17(ctx: &mut Ctx) {
    run_sorts(ctx, "C17", false)
}

// ================================================================================================
// C04

/// The operation list for a receiver of size (wc, wr): every operation kind, valid arguments
/// (exhaustive where cheap, seeded-random otherwise).
pub fn c04_ops(wc: usize, wr: usize, rng: &mut Rng) -> Vec<Op> {
    let mut ops = vec![Op::Fill, Op::FlipRows, Op::FlipCols];
    for r in 0..wr {
        for c in 0..wc {
            if (c + r) % 2 == 0 {
                ops.push(Op::SetCoord(c, r));
            } else {
                ops.push(Op::SetRowCol(c, r));
            }
        }
    }
    for r1 in 0..wr {
        for r2 in 0..wr {
            ops.push(Op::SwapRows(r1, r2));
            if r1 != r2 {
                ops.push(Op::RowPair(r1, r2));
            }
        }
    }
    for c1 in 0..wc {
        for c2 in 0..wc {
            ops.push(Op::SwapCols(c1, c2));
        }
    }
    for _ in 0..6 {
        ops.push(Op::Swap((rng.below(wc), rng.below(wr)), (rng.below(wc), rng.below(wr))));
    }
    for w in WALKS {
        ops.push(Op::RowsMut(w));
        ops.push(Op::CellsMut(w));
        for c in 0..wc {
            ops.push(Op::ColMut(c, w));
        }
    }
    ops.push(Op::CopyFromSlice(0));
    ops.push(Op::CloneFromSlice(0));
    for k in [SrcKind::Owned, SrcKind::View, SrcKind::ViewMut] {
        ops.push(Op::CopyFromToodee(k, SizeRel::Same));
        ops.push(Op::CloneFromToodee(k, SizeRel::Same));
    }
    for _ in 0..8 {
        let s0 = rng.below(wc + 1);
        let s1 = rng.below(wr + 1);
        let e0 = rng.range(s0, wc);
        let e1 = rng.range(s1, wr);
        let d0 = rng.below(wc - (e0 - s0) + 1);
        let d1 = rng.below(wr - (e1 - s1) + 1);
        ops.push(Op::CopyWithin((s0, s1), (e0, e1), (d0, d1)));
    }
    for v in ROW_SORTS {
        for r in 0..wr {
            ops.push(Op::Sort(v, r, rng.chance(1, 2)));
        }
    }
    for v in COL_SORTS {
        for c in 0..wc {
            ops.push(Op::Sort(v, c, rng.chance(1, 2)));
        }
    }
    for mc in 0..=wc {
        for mr in 0..=wr {
            ops.push(Op::Translate(mc, mr));
        }
    }
    ops
}

pub fn run_c04(ctx: &mut Ctx) {
    let n = nsel(ctx, 2, 3, 3, 5, 7);
    for (pc, pr) in shapes(n) {
        if pc == 0 {
            continue;
        }
        for win in windows(pc, pr) {
            let wc = (win.1).0 - (win.0).0;
            let wr = (win.1).1 - (win.0).1;
            if wc == 0 || wr == 0 || (wc == pc && wr == pr) {
                continue; // need a proper, non-empty sub-rectangle
            }
            for recv in [Recv::View, Recv::Nested, Recv::Nested3, Recv::ThinView, Recv::DirectLong] {
                if recv == Recv::DirectLong && !(win.0 == (0, 0) && (win.1).0 == pc) {
                    continue;
                }
                if !ctx.case(|| format!("C04 recv={:?} parent={}x{} win={:?}", recv, pc, pr, win)) {
                    if ctx.done() {
                        return;
                    }
                    continue;
                }
                let mut rng = Rng::from_parts(ctx.seed, ctx.cur_idx, 4);
                let ops = c04_ops(wc, wr, &mut rng);
                let keys = |c: usize, r: usize| ((c * 3 + r * 5 + (c * r) % 3) % 4) as u32;
                run_ops_both(ctx, "C04", (pc, pr), win, recv, &ops, &keys, !matches!(recv, Recv::ThinView | Recv::DirectLong), true, 1);
            }
        }
    }
    // larger parents: random proper windows, sampled operations
    for (pc, pr) in big_shapes(ctx, 4) {
        if pc < 2 && pr < 2 {
            continue;
        }
        for wi in 0..4 {
            for recv in [Recv::View, Recv::Nested, Recv::ThinView] {
                if !ctx.case(|| format!("C04 big recv={:?} parent={}x{} window#{}", recv, pc, pr, wi)) {
                    if ctx.done() {
                        return;
                    }
                    continue;
                }
                let mut rng = Rng::from_parts(ctx.seed, ctx.cur_idx, 44);
                // a proper non-empty window; wi selects the flavour (interior, left edge, bottom edge, random)
                let (s0, s1, e0, e1) = loop {
                    let (s0, s1) = match wi {
                        1 => (0, rng.below(pr)),
                        _ => (rng.below(pc), rng.below(pr)),
                    };
                    let (e0, e1) = match wi {
                        2 => (rng.range(s0 + 1, pc), pr),
                        _ => (rng.range(s0 + 1, pc), rng.range(s1 + 1, pr)),
                    };
                    if !(s0 == 0 && s1 == 0 && e0 == pc && e1 == pr) {
                        break (s0, s1, e0, e1);
                    }
                };
                let win = ((s0, s1), (e0, e1));
                let (wc, wr) = (e0 - s0, e1 - s1);
                let all = c04_ops(wc.min(12), wr.min(12), &mut rng);
                // keep every kind but thin the per-cell / per-pair enumerations
                let mut ops: Vec<Op> = all.into_iter().filter(|_| rng.chance(1, 3)).collect();
                for _ in 0..12 {
                    ops.push(Op::Swap((rng.below(wc), rng.below(wr)), (rng.below(wc), rng.below(wr))));
                    ops.push(Op::SetCoord(rng.below(wc), rng.below(wr)));
                    ops.push(Op::Translate(rng.below(wc + 1), rng.below(wr + 1)));
                    ops.push(Op::SwapRows(rng.below(wr), rng.below(wr)));
                    ops.push(Op::SwapCols(rng.below(wc), rng.below(wc)));
                    ops.push(Op::ColMut(rng.below(wc), *rng.pick(&WALKS)));
                    let v = *rng.pick(&ROW_SORTS);
                    ops.push(Op::Sort(v, rng.below(wr), rng.chance(1, 2)));
                    let v = *rng.pick(&COL_SORTS);
                    ops.push(Op::Sort(v, rng.below(wc), rng.chance(1, 2)));
                }
                ops.push(Op::Fill);
                ops.push(Op::FlipRows);
                ops.push(Op::FlipCols);
                for w in WALKS {
                    ops.push(Op::RowsMut(w));
                    ops.push(Op::CellsMut(w));
                }
                let keys = |c: usize, r: usize| ((c * 3 + r * 5 + (c * r) % 3) % 4) as u32;
                run_ops_both(ctx, "C04", (pc, pr), win, recv, &ops, &keys, recv != Recv::ThinView, pc * pr <= 300, 1);
            }
        }
    }
}
