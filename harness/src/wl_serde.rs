use crate::ctx::Ctx;
pub fn run_c18(_ctx: &mut Ctx) { unimplemented!() }
pub fn run_c19(_ctx: &mut Ctx) { unimplemented!() }
