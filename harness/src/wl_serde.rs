//! C18 (serialisation round-trips) and C19 (deserialisation accepts only consistent documents, never panics).
use crate::ctx::*;
use crate::model::{shapes, windows};
use serde::de::DeserializeOwned;
use serde::Serialize;
use std::fmt::Debug;
use toodee::*;

fn nsel(ctx: &Ctx, miri_q: usize, miri_t: usize, vg: usize, quick: usize, thorough: usize) -> usize {
    match (ctx.scale, ctx.tier) {
        (Scale::Miri, Tier::Quick) => miri_q,
        (Scale::Miri, Tier::Thorough) => miri_t,
        (Scale::Vg, _) => vg,
        (Scale::Native, Tier::Quick) => quick,
        (Scale::Native, Tier::Thorough) => thorough,
    }
}

/// The C01 predicate for arbitrary element types (no model).
pub fn shape_ok<T>(a: &TooDee<T>) -> Result<(), String> {
    let (c, r) = (a.num_cols(), a.num_rows());
    let l = a.data().len();
    if c.checked_mul(r) != Some(l) {
        return Err(format!("size ({},{}) but data.len() {}", c, r, l));
    }
    if (c == 0) != (r == 0) {
        return Err(format!("exactly one zero dimension: ({},{})", c, r));
    }
    if a.rows().len() != r || a.cells().len() != l {
        return Err(format!("rows().len() {} cells().len() {}", a.rows().len(), a.cells().len()));
    }
    for i in 0..c {
        if a.col(i).len() != r {
            return Err(format!("col({}).len() {}", i, a.col(i).len()));
        }
    }
    Ok(())
}

// ================================================================================================
// C18

pub trait Gen: Sized {
    const NAME: &'static str;
    fn gen(rng: &mut Rng) -> Self;
}
impl Gen for u32 {
    const NAME: &'static str = "u32";
    fn gen(rng: &mut Rng) -> u32 {
        *rng.pick(&[0, 1, 7, u32::MAX, 1 << 31, 42, 1000000])
    }
}
impl Gen for i64 {
    const NAME: &'static str = "i64";
    fn gen(rng: &mut Rng) -> i64 {
        *rng.pick(&[0, -1, 1, i64::MIN, i64::MAX, -42, 1 << 40])
    }
}
const STRS: [&str; 12] = ["", "a", "num_cols", "data", "\"quoted\"", "back\\slash", "line\nbreak\ttab", "\u{0}\u{1f}", "\u{1F600} emoji", "{\"num_rows\":1}", "é\u{2028}", "]},"];
impl Gen for String {
    const NAME: &'static str = "String";
    fn gen(rng: &mut Rng) -> String {
        rng.pick(&STRS).to_string()
    }
}
impl Gen for () {
    const NAME: &'static str = "()";
    fn gen(_rng: &mut Rng) {}
}
impl Gen for Option<u32> {
    const NAME: &'static str = "Option<u32>";
    fn gen(rng: &mut Rng) -> Option<u32> {
        if rng.chance(1, 3) {
            None
        } else {
            Some(u32::gen(rng))
        }
    }
}
impl Gen for Vec<i32> {
    const NAME: &'static str = "Vec<i32>";
    fn gen(rng: &mut Rng) -> Vec<i32> {
        (0..rng.below(4)).map(|_| *rng.pick(&[0, -1, i32::MAX, i32::MIN, 5])).collect()
    }
}
impl Gen for (u8, String) {
    const NAME: &'static str = "(u8,String)";
    fn gen(rng: &mut Rng) -> (u8, String) {
        (rng.below(256) as u8, String::gen(rng))
    }
}

const ENC: [&str; 4] = ["to_string", "to_vec", "to_writer", "to_value"];
const DEC: [&str; 4] = ["from_str", "from_slice", "from_reader", "from_value"];

fn encode<S: Serialize>(x: &S, enc: usize) -> Result<Vec<u8>, String> {
    match enc {
        0 => serde_json::to_string(x).map(|s| s.into_bytes()).map_err(|e| e.to_string()),
        1 => serde_json::to_vec(x).map_err(|e| e.to_string()),
        2 => {
            let mut w = Vec::new();
            serde_json::to_writer(&mut w, x).map_err(|e| e.to_string())?;
            Ok(w)
        }
        _ => {
            let v = serde_json::to_value(x).map_err(|e| e.to_string())?;
            Ok(v.to_string().into_bytes())
        }
    }
}

fn decode<T: DeserializeOwned>(bytes: &[u8], dec: usize) -> Result<TooDee<T>, String> {
    match dec {
        0 => serde_json::from_str(std::str::from_utf8(bytes).map_err(|e| e.to_string())?).map_err(|e| e.to_string()),
        1 => serde_json::from_slice(bytes).map_err(|e| e.to_string()),
        2 => serde_json::from_reader(std::io::Cursor::new(bytes)).map_err(|e| e.to_string()),
        _ => {
            let v: serde_json::Value = serde_json::from_slice(bytes).map_err(|e| format!("not JSON: {}", e))?;
            serde_json::from_value(v).map_err(|e| e.to_string())
        }
    }
}

fn roundtrip_owned<T: Gen + Serialize + DeserializeOwned + PartialEq + Debug + Clone>(ctx: &mut Ctx, c: usize, r: usize, rng: &mut Rng) {
    let data: Vec<T> = (0..c * r).map(|_| T::gen(rng)).collect();
    let a = TooDee::from_vec(c, r, data);
    for enc in 0..4 {
        let bytes = match catches(|| encode(&a, enc)) {
            Ok(Ok(b)) => b,
            Ok(Err(e)) => {
                ctx.violation(ENC[enc], "serde:encode-failed", format!("{} {}x{}: {}", T::NAME, c, r, e));
                continue;
            }
            Err(m) => {
                ctx.violation(ENC[enc], "serde:encode-panicked", format!("{} {}x{}: {}", T::NAME, c, r, m));
                continue;
            }
        };
        for dec in 0..4 {
            ctx.count("calls", 1);
            let what = || format!("{} {}x{} {}->{} doc={}", T::NAME, c, r, ENC[enc], DEC[dec], String::from_utf8_lossy(&bytes[..bytes.len().min(160)]));
            match catches(|| decode::<T>(&bytes, dec)) {
                Err(m) => ctx.violation(DEC[dec], "serde:decode-panicked", format!("{}: {}", what(), m)),
                Ok(Err(e)) => ctx.violation(DEC[dec], "serde:roundtrip-rejected", format!("{}: {}", what(), e)),
                Ok(Ok(b)) => {
                    if b != a || b.size() != a.size() || b.data() != a.data() {
                        ctx.violation(DEC[dec], "serde:roundtrip-differs", format!("{}: got size {:?} data {:?}", what(), b.size(), &b.data()[..b.data().len().min(6)]));
                    } else if let Err(e) = shape_ok(&b) {
                        ctx.violation(DEC[dec], "serde:shape", format!("{}: {}", what(), e));
                    } else {
                        ctx.nontrivial(("C18", T::NAME, c, r, enc, dec));
                        ctx.count("roundtrips_ok", 1);
                    }
                }
            }
        }
    }
}

fn roundtrip_views(ctx: &mut Ctx, pc: usize, pr: usize, rng: &mut Rng) {
    let data: Vec<u32> = (0..pc * pr).map(|_| rng.next() as u32).collect();
    let mut parent = TooDee::from_vec(pc, pr, data);
    for (s, e) in windows(pc, pr) {
        for m in [false, true] {
            let want: TooDee<u32> = TooDee::from(parent.view(s, e));
            for enc in 0..4 {
                let bytes = if m {
                    let v = parent.view_mut(s, e);
                    catches(|| encode(&v, enc))
                } else {
                    let v = parent.view(s, e);
                    catches(|| encode(&v, enc))
                };
                let bytes = match bytes {
                    Ok(Ok(b)) => b,
                    o => {
                        ctx.violation(ENC[enc], "serde:encode-failed", format!("view {:?} of {}x{}: {:?}", (s, e), pc, pr, o.map(|x| x.map(|_| ()))));
                        continue;
                    }
                };
                for dec in 0..4 {
                    ctx.count("calls", 1);
                    match catches(|| decode::<u32>(&bytes, dec)) {
                        Ok(Ok(b)) if b == want && b.size() == want.size() => {
                            ctx.nontrivial(("C18view", m, pc, pr, s, e, enc, dec));
                            ctx.count("roundtrips_ok", 1);
                        }
                        o => ctx.violation(DEC[dec], "serde:view-roundtrip", format!("view(mut={}) {:?} of {}x{} via {}: {:?} expected size {:?}", m, (s, e), pc, pr, ENC[enc], o.map(|x| x.map(|b| (b.size(), b.data().to_vec()))), want.size())),
                    }
                }
            }
        }
    }
}

/// Round-trip selected windows of a (large) parent through every encoder/decoder pair.
fn roundtrip_view_windows(ctx: &mut Ctx, pc: usize, pr: usize, wins: &[crate::recv::Win], rng: &mut Rng) {
    let data: Vec<u32> = (0..pc * pr).map(|_| rng.next() as u32).collect();
    let mut parent = TooDee::from_vec(pc, pr, data);
    for &(s, e) in wins {
        for m in [false, true] {
            let want: TooDee<u32> = TooDee::from(parent.view(s, e));
            for enc in 0..4 {
                let bytes = if m {
                    let v = parent.view_mut(s, e);
                    catches(|| encode(&v, enc))
                } else {
                    let v = parent.view(s, e);
                    catches(|| encode(&v, enc))
                };
                let bytes = match bytes {
                    Ok(Ok(b)) => b,
                    o => {
                        ctx.violation(ENC[enc], "serde:encode-failed", format!("view {:?} of {}x{}: {:?}", (s, e), pc, pr, o.map(|x| x.map(|_| ()))));
                        continue;
                    }
                };
                for dec in 0..4 {
                    ctx.count("calls", 1);
                    match catches(|| decode::<u32>(&bytes, dec)) {
                        Ok(Ok(b)) if b == want && b.size() == want.size() => {
                            ctx.nontrivial(("C18view", m, pc, pr, s, e, enc, dec));
                            ctx.count("roundtrips_ok", 1);
                        }
                        o => ctx.violation(DEC[dec], "serde:view-roundtrip", format!("view(mut={}) {:?} of {}x{} via {}: {:?} expected size {:?}", m, (s, e), pc, pr, ENC[enc], o.map(|x| x.map(|b| (b.size(), b.data().len()))), want.size())),
                    }
                }
            }
        }
    }
}

/// Arrays that are the result of a history of operations (emptied row by row / column by column,
/// reshaped, regrown, ...) must round-trip exactly like freshly constructed ones.
fn history_roundtrip(ctx: &mut Ctx, seed_mix: u64, nsteps: usize) {
    use crate::elem::{kv_reset, Kv};
    use crate::wl_hist::{rand_step_pub, Hist, Step, StepOut};
    use crate::wl_insrem::Axis;
    kv_reset();
    let mut rng = Rng::from_parts(ctx.seed, seed_mix, 186);
    let mut h = Hist::<Kv>::new();
    h.valid_only = true;
    // scripted prefixes that empty an array through each removal path
    let script: Vec<Step> = match seed_mix % 6 {
        0 => vec![Step::FromVec(3, 2, 6), Step::Rem { axis: Axis::Row, idx: 0, pop: false, front: 0, back: 0, inter: 0 }, Step::Rem { axis: Axis::Row, idx: 0, pop: false, front: 1, back: 0, inter: 0 }],
        1 => vec![Step::FromVec(2, 3, 6), Step::Rem { axis: Axis::Col, idx: 0, pop: false, front: 0, back: 0, inter: 0 }, Step::Rem { axis: Axis::Col, idx: 0, pop: false, front: 0, back: 1, inter: 0 }],
        2 => vec![Step::FromVec(3, 1, 3), Step::Rem { axis: Axis::Row, idx: 0, pop: true, front: 0, back: 0, inter: 0 }],
        3 => vec![Step::FromVec(1, 3, 3), Step::Rem { axis: Axis::Col, idx: 0, pop: true, front: 0, back: 0, inter: 0 }],
        4 => vec![Step::FromVec(2, 2, 4), Step::Clear, Step::Ins { axis: Axis::Col, idx: 0, len: 3, push: false, ik: 0 }, Step::SwapDims],
        _ => vec![],
    };
    let mut i = 0usize;
    while i < nsteps {
        let st = if i < script.len() { script[i].clone() } else { rand_step_pub(&mut rng, &h.g, 6) };
        i += 1;
        let out = h.step(ctx, &st);
        if out == StepOut::Failed {
            return;
        }
        if out != StepOut::Accepted {
            continue;
        }
        let enc = (i + seed_mix as usize) % 4;
        let dec = (i / 4 + seed_mix as usize) % 4;
        ctx.count("calls", 1);
        let what = || format!("after {:?} (size {:?}) {}->{}", st, h.g.size(), ENC[enc], DEC[dec]);
        match catches(|| encode(&h.a, enc).and_then(|b| decode::<Kv>(&b, dec).map(|x| (b, x)))) {
            Err(m) => ctx.violation(DEC[dec], "serde:decode-panicked", format!("{}: {}", what(), m)),
            Ok(Err(e)) => ctx.violation(DEC[dec], "serde:roundtrip-rejected", format!("{}: {}", what(), e)),
            Ok(Ok((_bytes, b))) => {
                let same_ids = b.data().iter().map(|k| k.uid).eq(h.a.data().iter().map(|k| k.uid));
                if b != h.a || b.size() != h.a.size() || !same_ids {
                    ctx.violation(DEC[dec], "serde:roundtrip-differs", format!("{}: got size {:?}", what(), b.size()));
                } else {
                    ctx.count("roundtrips_ok", 1);
                    ctx.count("history_roundtrips", 1);
                    ctx.nontrivial(("C18hist", seed_mix, i));
                }
            }
        }
    }
}

pub fn run_c18(ctx: &mut Ctx) {
    let n = nsel(ctx, 1, 2, 2, 4, 8);
    let nrand = nsel(ctx, 0, 1, 2, 40, 2000);
    let nview = nsel(ctx, 1, 2, 2, 3, 6);
    for shape in shapes(n) {
        if ctx.case(|| format!("C18 owned shape={}x{}", shape.0, shape.1)) {
            let mut rng = Rng::from_parts(ctx.seed, ctx.cur_idx, 18);
            let (c, r) = shape;
            roundtrip_owned::<u32>(ctx, c, r, &mut rng);
            roundtrip_owned::<i64>(ctx, c, r, &mut rng);
            roundtrip_owned::<String>(ctx, c, r, &mut rng);
            roundtrip_owned::<Option<u32>>(ctx, c, r, &mut rng);
            roundtrip_owned::<Vec<i32>>(ctx, c, r, &mut rng);
            roundtrip_owned::<(u8, String)>(ctx, c, r, &mut rng);
            roundtrip_owned::<()>(ctx, c, r, &mut rng);
        }
        if ctx.done() {
            return;
        }
    }
    for i in 0..nrand {
        if ctx.case(|| format!("C18 owned random #{}", i)) {
            let mut rng = Rng::from_parts(ctx.seed, ctx.cur_idx, 181);
            let (c, r) = (rng.range(1, 12), rng.range(1, 12));
            match i % 6 {
                0 => roundtrip_owned::<u32>(ctx, c, r, &mut rng),
                1 => roundtrip_owned::<i64>(ctx, c, r, &mut rng),
                2 => roundtrip_owned::<String>(ctx, c, r, &mut rng),
                3 => roundtrip_owned::<Option<u32>>(ctx, c, r, &mut rng),
                4 => roundtrip_owned::<Vec<i32>>(ctx, c, r, &mut rng),
                _ => roundtrip_owned::<(u8, String)>(ctx, c, r, &mut rng),
            }
        }
        if ctx.done() {
            return;
        }
    }
    if ctx.scale == Scale::Native {
        if ctx.case(|| "C18 views of a large parent (windows above 4096 and 65536 cells)".to_string()) {
            let mut rng = Rng::from_parts(ctx.seed, 0, 185);
            roundtrip_view_windows(ctx, 70, 62, &[((0, 0), (70, 62)), ((1, 1), (70, 62)), ((0, 0), (69, 61)), ((3, 2), (40, 12))], &mut rng);
            roundtrip_view_windows(ctx, 300, 230, &[((1, 0), (300, 230)), ((7, 9), (290, 229))], &mut rng);
        }
        for (i, shape) in [(40usize, 33usize), (1, 200), (130, 1), (64, 64), (9, 17), (70, 60), (300, 220)].into_iter().enumerate() {
            if ctx.case(|| format!("C18 owned big shape={}x{}", shape.0, shape.1)) {
                let mut rng = Rng::from_parts(ctx.seed, i as u64, 183);
                roundtrip_owned::<u32>(ctx, shape.0, shape.1, &mut rng);
                roundtrip_owned::<String>(ctx, shape.0, shape.1, &mut rng);
                roundtrip_owned::<Option<u32>>(ctx, shape.0, shape.1, &mut rng);
            }
            if ctx.done() {
                return;
            }
        }
        for (i, shape) in [(12usize, 9usize), (3, 20)].into_iter().enumerate() {
            if ctx.case(|| format!("C18 views big parent={}x{}", shape.0, shape.1)) {
                let mut rng = Rng::from_parts(ctx.seed, i as u64, 184);
                roundtrip_views(ctx, shape.0, shape.1, &mut rng);
            }
            if ctx.done() {
                return;
            }
        }
    }
    let nhist = nsel(ctx, 2, 6, 12, 120, 3000);
    for i in 0..nhist {
        if ctx.case(|| format!("C18 round trips along a history #{}", i)) {
            history_roundtrip(ctx, i as u64, 24);
        }
        if ctx.done() {
            return;
        }
    }
    for shape in shapes(nview) {
        if ctx.case(|| format!("C18 views parent={}x{}", shape.0, shape.1)) {
            let mut rng = Rng::from_parts(ctx.seed, ctx.cur_idx, 182);
            roundtrip_views(ctx, shape.0, shape.1, &mut rng);
        }
        if ctx.done() {
            return;
        }
    }
}

// ================================================================================================
// C19

pub trait DocElem: DeserializeOwned + PartialEq + Debug + Clone {
    const NAME: &'static str;
    fn valid(rng: &mut Rng) -> (String, Self);
    fn invalid(rng: &mut Rng) -> String;
}
impl DocElem for u32 {
    const NAME: &'static str = "u32";
    fn valid(rng: &mut Rng) -> (String, u32) {
        let v = *rng.pick(&[0u32, 1, 5, 4294967295, 77]);
        (v.to_string(), v)
    }
    fn invalid(rng: &mut Rng) -> String {
        rng.pick(&["\"x\"", "-1", "1.5", "4294967296", "null", "[]", "{}", "true", "1e2"]).to_string()
    }
}
impl DocElem for String {
    const NAME: &'static str = "String";
    fn valid(rng: &mut Rng) -> (String, String) {
        let s = rng.pick(&STRS).to_string();
        (serde_json::to_string(&s).unwrap(), s)
    }
    fn invalid(rng: &mut Rng) -> String {
        rng.pick(&["1", "null", "[]", "{}", "false"]).to_string()
    }
}
impl DocElem for () {
    const NAME: &'static str = "()";
    fn valid(_rng: &mut Rng) -> (String, ()) {
        ("null".into(), ())
    }
    fn invalid(rng: &mut Rng) -> String {
        rng.pick(&["1", "\"a\"", "[]", "{}", "false"]).to_string()
    }
}
impl DocElem for Option<u8> {
    const NAME: &'static str = "Option<u8>";
    fn valid(rng: &mut Rng) -> (String, Option<u8>) {
        if rng.chance(1, 3) {
            ("null".into(), None)
        } else {
            let v = *rng.pick(&[0u8, 1, 255, 9]);
            (v.to_string(), Some(v))
        }
    }
    fn invalid(rng: &mut Rng) -> String {
        rng.pick(&["256", "-1", "\"a\"", "[]", "1.0"]).to_string()
    }
}

/// dimension literals with their meaning as a usize (None = not a valid dimension)
const DIMS: [(&str, Option<u64>); 22] = [
    ("0", Some(0)),
    ("1", Some(1)),
    ("2", Some(2)),
    ("3", Some(3)),
    ("4", Some(4)),
    ("6", Some(6)),
    ("4294967296", Some(1 << 32)),
    ("9223372036854775808", Some(1 << 63)),
    ("18446744073709551615", Some(u64::MAX)),
    ("18446744073709551616", None),
    ("-1", None),
    ("1.5", None),
    ("1e3", None),
    ("2.0", None),
    ("\"3\"", None),
    ("null", None),
    ("true", None),
    ("[]", None),
    ("{}", None),
    ("[2]", None),
    ("-9223372036854775809", None),
    ("1E400", None),
];

#[derive(Clone, Debug)]
enum FVal<T> {
    Dim(&'static str, Option<u64>),
    /// raw text + parsed elements (None if not a well-typed array)
    Data(String, Option<Vec<T>>),
    Other(String),
}
#[derive(Clone, Debug)]
struct Field<T> {
    key: String,
    val: FVal<T>,
}

fn render<T>(fields: &[Field<T>], ws: bool) -> String {
    let mut s = String::from("{");
    for (i, f) in fields.iter().enumerate() {
        if i > 0 {
            s.push(',');
        }
        if ws {
            s.push_str(" \n");
        }
        s.push_str(&serde_json::to_string(&f.key).unwrap());
        s.push(':');
        if ws {
            s.push(' ');
        }
        match &f.val {
            FVal::Dim(t, _) => s.push_str(t),
            FVal::Data(t, _) => s.push_str(t),
            FVal::Other(t) => s.push_str(t),
        }
    }
    s.push('}');
    s
}

fn gen_data<T: DocElem>(rng: &mut Rng, len: usize, corrupt: bool) -> (String, Option<Vec<T>>) {
    let mut parts = vec![];
    let mut vals = vec![];
    let bad_at = if corrupt && len > 0 { Some(rng.below(len)) } else { None };
    for i in 0..len {
        if Some(i) == bad_at {
            parts.push(T::invalid(rng));
        } else {
            let (t, v) = T::valid(rng);
            parts.push(t);
            vals.push(v);
        }
    }
    (format!("[{}]", parts.join(",")), if bad_at.is_some() { None } else { Some(vals) })
}

/// The stated content of a (collapsed) field list if it is consistent: (cols, rows, data)
fn consistent<T: Clone>(nc: &FVal<T>, nr: &FVal<T>, d: &FVal<T>) -> Option<(usize, usize, Vec<T>)> {
    let c = match nc {
        FVal::Dim(_, Some(v)) => *v,
        _ => return None,
    };
    let r = match nr {
        FVal::Dim(_, Some(v)) => *v,
        _ => return None,
    };
    let data = match d {
        FVal::Data(_, Some(v)) => v,
        _ => return None,
    };
    let p = (c as u128) * (r as u128);
    if p > u64::MAX as u128 || p != data.len() as u128 {
        return None;
    }
    if (c == 0) != (r == 0) {
        return None;
    }
    Some((c as usize, r as usize, data.clone()))
}

#[derive(Debug, PartialEq, Eq, Clone, Copy, Hash)]
enum Class {
    MustReject,
    MustAccept,
    Either,
}

/// Classify a field list. Returns the class and every consistent combination of stated occurrences.
fn classify<T: Clone>(fields: &[Field<T>]) -> (Class, Vec<(usize, usize, Vec<T>)>) {
    let ncs: Vec<&FVal<T>> = fields.iter().filter(|f| f.key == "num_cols").map(|f| &f.val).collect();
    let nrs: Vec<&FVal<T>> = fields.iter().filter(|f| f.key == "num_rows").map(|f| &f.val).collect();
    let ds: Vec<&FVal<T>> = fields.iter().filter(|f| f.key == "data").map(|f| &f.val).collect();
    let unknown = fields.iter().any(|f| !matches!(f.key.as_str(), "num_cols" | "num_rows" | "data"));
    let mut combos = vec![];
    for a in &ncs {
        for b in &nrs {
            for d in &ds {
                if let Some(x) = consistent(a, b, d) {
                    combos.push(x);
                }
            }
        }
    }
    if combos.is_empty() {
        return (Class::MustReject, combos);
    }
    let dup = ncs.len() > 1 || nrs.len() > 1 || ds.len() > 1;
    if unknown || dup {
        (Class::Either, combos)
    } else {
        (Class::MustAccept, combos)
    }
}

/// `from_value` sees the document after serde_json::Value collapsed duplicate keys (last one wins).
fn collapse<T: Clone>(fields: &[Field<T>]) -> Vec<Field<T>> {
    let mut out: Vec<Field<T>> = vec![];
    for f in fields {
        if let Some(p) = out.iter().position(|g| g.key == f.key) {
            out[p] = f.clone();
        } else {
            out.push(f.clone());
        }
    }
    out
}

fn judge<T: DocElem>(ctx: &mut Ctx, transport: usize, text: &str, fields: Option<&[Field<T>]>) {
    ctx.count("calls", 1);
    let res = catches(|| decode::<T>(text.as_bytes(), transport));
    let tn = DEC[transport];
    let doc = || text.chars().take(220).collect::<String>();
    let res = match res {
        Err(m) => {
            ctx.violation(tn, "deser:panicked", format!("{} doc={}: {}", T::NAME, doc(), m));
            return;
        }
        Ok(r) => r,
    };
    if transport == 3 && matches!(&res, Err(e) if e.starts_with("not JSON:")) {
        // the text cannot be turned into a serde_json::Value at all: this transport does not apply
        ctx.count("from_value_not_applicable", 1);
        return;
    }
    if let Ok(a) = &res {
        if let Err(e) = shape_ok(a) {
            ctx.violation(tn, "deser:shape", format!("{} doc={}: {}", T::NAME, doc(), e));
            return;
        }
    }
    ctx.detail(|| format!("{} via {}: {} -> {}", T::NAME, tn, doc(), match &res { Ok(a) => format!("accepted as {:?}", a.size()), Err(e) => format!("error: {}", e.chars().take(60).collect::<String>()) }));
    let fields = match fields {
        Some(f) => f,
        None => {
            // unclassified (mutated / non-object) documents: never-panic and shape only
            match res {
                Ok(_) => ctx.count("unclassified_accepted", 1),
                Err(_) => ctx.count("unclassified_rejected", 1),
            }
            return;
        }
    };
    let eff: Vec<Field<T>> = if transport == 3 { collapse(fields) } else { fields.to_vec() };
    let (class, combos) = classify(&eff);
    ctx.seen("doc_classes", (class, transport, eff.len().min(5)));
    match (class, res) {
        (Class::MustReject, Ok(a)) => ctx.violation(tn, "deser:inconsistent-accepted", format!("{} doc={} -> size {:?} with {} cells", T::NAME, doc(), a.size(), a.data().len())),
        (Class::MustReject, Err(_)) => {
            ctx.count("rejected", 1);
        }
        (Class::MustAccept, Err(_)) => {
            // C19 only forbids accepting inconsistent documents and panicking; refusing a consistent
            // document is not a C19 violation (round-tripping what the crate itself writes is C18).
            // It is counted, and a run in which nothing at all was accepted is inconclusive.
            ctx.count("consistent_rejected", 1);
        }
        (Class::Either, Err(_)) => {
            ctx.count("either_rejected", 1);
        }
        (_, Ok(a)) => {
            let hit = combos.iter().any(|(c, r, d)| a.size() == (*c, *r) && a.data() == &d[..]);
            if !hit {
                ctx.violation(tn, "deser:content-differs", format!("{} doc={} -> size {:?} data {:?}", T::NAME, doc(), a.size(), &a.data()[..a.data().len().min(6)]));
            } else {
                ctx.count("accepted", 1);
            }
        }
    }
}

const KEYS: [&str; 7] = ["num_cols", "num_rows", "data", "extra", "num_col", "Data", ""];

fn gen_doc<T: DocElem>(rng: &mut Rng, pattern: &[usize]) -> Vec<Field<T>> {
    // choose a target shape first so that consistent documents are common
    let dims_small = [0usize, 1, 2, 3, 4, 6];
    let (tc, tr) = if rng.chance(1, 8) { (0, 0) } else { (*rng.pick(&dims_small[1..]), *rng.pick(&dims_small[1..])) };
    let mut out = vec![];
    for &k in pattern {
        let key = KEYS[k].to_string();
        let val = match k {
            0 | 1 => {
                let target = if k == 0 { tc } else { tr };
                if rng.chance(3, 5) {
                    let lit = DIMS.iter().find(|d| d.1 == Some(target as u64)).unwrap();
                    FVal::Dim(lit.0, lit.1)
                } else {
                    let d = rng.pick(&DIMS);
                    FVal::Dim(d.0, d.1)
                }
            }
            2 => {
                let p = tc * tr;
                let roll = rng.below(20);
                if roll < 11 {
                    let (t, v) = gen_data::<T>(rng, p, false);
                    FVal::Data(t, v)
                } else if roll < 14 {
                    let l = *rng.pick(&[p.saturating_sub(1), p + 1, 0, 1, 2]);
                    let (t, v) = gen_data::<T>(rng, l, false);
                    FVal::Data(t, v)
                } else if roll < 17 {
                    let (t, v) = gen_data::<T>(rng, p.max(1), true);
                    FVal::Data(t, v)
                } else {
                    FVal::Data(rng.pick(&["null", "3", "\"abc\"", "{}", "{\"0\":1}", "true"]).to_string(), None)
                }
            }
            _ => FVal::Other(rng.pick(&["1", "null", "[1,2]", "{\"num_cols\":2}", "\"x\""]).to_string()),
        };
        out.push(Field { key, val });
    }
    out
}

fn mutate(rng: &mut Rng, s: &str) -> Vec<u8> {
    let mut b = s.as_bytes().to_vec();
    if b.is_empty() {
        return b;
    }
    match rng.below(5) {
        0 => {
            let n = rng.below(b.len());
            b.truncate(n)
        }
        1 => {
            let i = rng.below(b.len());
            b[i] ^= 1 << rng.below(8)
        }
        2 => {
            let i = rng.below(b.len());
            let j = rng.range(i, b.len() - 1);
            b.drain(i..=j);
        }
        3 => {
            let i = rng.below(b.len());
            let ins = rng.pick(&["0", "-", "\"", ",", "[", "]", "{", "}", ":", "1e999", "\\", "\u{0}"]).as_bytes().to_vec();
            b.splice(i..i, ins);
        }
        _ => {
            let i = rng.below(b.len());
            let j = rng.range(i, b.len() - 1);
            let seg = b[i..=j].to_vec();
            b.splice(i..i, seg);
        }
    }
    b
}

fn c19_pattern_case<T: DocElem>(ctx: &mut Ctx, pattern: &[usize], reps: usize) {
    let mut rng = Rng::from_parts(ctx.seed, ctx.cur_idx, 19);
    for rep in 0..reps {
        let fields = gen_doc::<T>(&mut rng, pattern);
        let text = render(&fields, rep % 3 == 1);
        for t in 0..4 {
            judge::<T>(ctx, t, &text, Some(&fields));
        }
        let (class, _) = classify(&fields);
        let dimclass = |v: &FVal<T>| match v {
            FVal::Dim(_, Some(0)) => 0,
            FVal::Dim(_, Some(x)) if *x < 100 => 1,
            FVal::Dim(_, Some(_)) => 2,
            FVal::Dim(t, None) => 3 + (t.len() % 7),
            FVal::Data(_, Some(v)) => 20 + v.len().min(5),
            FVal::Data(_, None) => 30,
            FVal::Other(_) => 40,
        };
        let sig: Vec<(usize, usize)> = pattern.iter().zip(fields.iter()).map(|(k, f)| (*k, dimclass(&f.val))).collect();
        ctx.nontrivial(("C19", T::NAME, sig, class));
        // byte-level mutations of this document: never panic, shape holds
        if rep % 4 == 0 {
            for _ in 0..3 {
                let m = mutate(&mut rng, &text);
                if let Ok(ms) = String::from_utf8(m.clone()) {
                    for t in 0..4 {
                        judge::<T>(ctx, t, &ms, None);
                    }
                } else {
                    for t in 1..3 {
                        ctx.count("calls", 1);
                        if let Err(msg) = catches(|| decode::<T>(&m, t).map(|a| shape_ok(&a))) {
                            ctx.violation(DEC[t], "deser:panicked", format!("{} non-utf8 doc {:?}: {}", T::NAME, &m[..m.len().min(80)], msg));
                        }
                    }
                }
                ctx.count("mutated_docs", 1);
            }
        }
    }
}

pub fn run_c19(ctx: &mut Ctx) {
    let (maxlen, reps) = match (ctx.scale, ctx.tier) {
        (Scale::Miri, Tier::Quick) => (2, 1),
        (Scale::Miri, Tier::Thorough) => (3, 2),
        (Scale::Vg, _) => (3, 2),
        (Scale::Native, Tier::Quick) => (4, 6),
        (Scale::Native, Tier::Thorough) => (5, 80),
    };
    // every sequence of field keys up to maxlen over {num_cols, num_rows, data, unknown...}: every
    // subset, order and duplication of the three fields plus unknown ones
    let nk = 5usize; // first five KEYS
    let mut patterns: Vec<Vec<usize>> = vec![vec![]];
    let mut frontier: Vec<Vec<usize>> = vec![vec![]];
    for _ in 0..maxlen {
        let mut next = vec![];
        for p in &frontier {
            for k in 0..nk {
                let mut q = p.clone();
                q.push(k);
                next.push(q);
            }
        }
        patterns.extend(next.iter().cloned());
        frontier = next;
    }
    // plus the two odd keys somewhere
    patterns.push(vec![0, 1, 2, 5]);
    patterns.push(vec![6, 0, 1, 2]);
    if maxlen < 3 {
        // the six orders of the three fields, and a few duplications, are always present
        for p in [[0, 1, 2], [0, 2, 1], [1, 0, 2], [1, 2, 0], [2, 0, 1], [2, 1, 0]] {
            patterns.push(p.to_vec());
        }
        patterns.push(vec![0, 0, 1, 2]);
        patterns.push(vec![0, 1, 2, 2]);
        patterns.push(vec![0, 1, 2, 3]);
    }
    for (pi, p) in patterns.iter().enumerate() {
        // the three-field permutations get many more repetitions: they carry the accept/reject logic
        let core = p.len() == 3 && p.contains(&0) && p.contains(&1) && p.contains(&2);
        let core_mul = if ctx.scale == Scale::Miri { 5 } else { 40 };
        let reps_p = if core { reps * core_mul } else if p.len() <= 3 { reps * 2 } else { reps };
        for ty in 0..4 {
            if ctx.case(|| format!("C19 fields={:?} elem={}", p.iter().map(|k| KEYS[*k]).collect::<Vec<_>>(), ["u32", "String", "Option<u8>", "()"][ty])) {
                match ty {
                    0 => c19_pattern_case::<u32>(ctx, p, reps_p),
                    1 => c19_pattern_case::<String>(ctx, p, reps_p.div_ceil(2)),
                    2 => c19_pattern_case::<Option<u8>>(ctx, p, reps_p.div_ceil(2)),
                    _ => c19_pattern_case::<()>(ctx, p, reps_p.div_ceil(3)),
                }
            }
            if ctx.done() {
                return;
            }
        }
        let _ = pi;
    }
    // dimension pairs whose product overflows, with data lengths equal to the WRAPPED product (and a
    // few others): an unchecked or wrongly-typed multiplication would accept these
    const HUGE: [(&str, u64); 11] = [
        ("2147483648", 1 << 31),
        ("4294967296", 1 << 32),
        ("8589934592", 1 << 33),
        ("4611686018427387904", 1 << 62),
        ("9223372036854775808", 1 << 63),
        ("9223372036854775809", (1 << 63) + 1),
        ("6148914691236517206", 6148914691236517206),
        ("18446744073709551613", u64::MAX - 2),
        ("18446744073709551614", u64::MAX - 1),
        ("18446744073709551615", u64::MAX),
        ("12297829382473034411", 12297829382473034411),
    ];
    const SMALL: [(&str, u64); 5] = [("0", 0), ("1", 1), ("2", 2), ("3", 3), ("4", 4)];
    for (ai, a) in HUGE.iter().enumerate() {
        if !ctx.case(|| format!("C19 overflow-wrap num_cols={}", a.0)) {
            if ctx.done() {
                return;
            }
            continue;
        }
        let mut rng = Rng::from_parts(ctx.seed, ai as u64, 191);
        for b in HUGE.iter().chain(SMALL.iter()) {
            let wrapped = a.1.wrapping_mul(b.1);
            let mut lens = vec![0usize, 1, 2];
            if wrapped <= 24 {
                lens.push(wrapped as usize);
            }
            lens.sort_unstable();
            lens.dedup();
            for &l in &lens {
                for swap in [false, true] {
                    let (x, y) = if swap { (b, a) } else { (a, b) };
                    let (t, v) = gen_data::<u32>(&mut rng, l, false);
                    let fields = vec![
                        Field { key: "num_cols".into(), val: FVal::Dim(x.0, Some(x.1)) },
                        Field { key: "num_rows".into(), val: FVal::Dim(y.0, Some(y.1)) },
                        Field { key: "data".into(), val: FVal::Data(t, v) },
                    ];
                    let text = render(&fields, false);
                    for tr in 0..4 {
                        judge::<u32>(ctx, tr, &text, Some(&fields));
                    }
                    ctx.nontrivial(("C19wrap", x.0, y.0, l));
                    ctx.count("overflow_wrap_docs", 1);
                }
            }
        }
    }
    // top-level non-objects and degenerate texts
    if ctx.case(|| "C19 top-level non-objects".to_string()) {
        for text in ["", " ", "null", "3", "\"s\"", "[]", "[1,2,3]", "[2,2,[1,2,3,4]]", "true", "{", "}", "{}", "{\"data\":[]}", "{\"num_cols\":0,\"num_rows\":0}", "[{\"num_cols\":0,\"num_rows\":0,\"data\":[]}]", "{\"num_cols\":1,\"num_rows\":1,\"data\":[1]}x", "\u{feff}{}", "{\"num_cols\":0,\"num_rows\":0,\"data\":[]}"] {
            for t in 0..4 {
                ctx.count("calls", 1);
                let r = catches(|| decode::<u32>(text.as_bytes(), t));
                match r {
                    Err(m) => ctx.violation(DEC[t], "deser:panicked", format!("doc={:?}: {}", text, m)),
                    Ok(Ok(a)) => {
                        let expect_ok = text == "{\"num_cols\":0,\"num_rows\":0,\"data\":[]}";
                        if !expect_ok {
                            ctx.violation(DEC[t], "deser:inconsistent-accepted", format!("doc={:?} -> {:?}", text, a.size()));
                        } else if a.size() != (0, 0) || !a.data().is_empty() {
                            ctx.violation(DEC[t], "deser:content-differs", format!("doc={:?}", text));
                        } else {
                            ctx.count("accepted", 1);
                        }
                    }
                    Ok(Err(_)) => {
                        if text == "{\"num_cols\":0,\"num_rows\":0,\"data\":[]}" {
                            ctx.count("consistent_rejected", 1);
                        } else {
                            ctx.count("rejected", 1);
                        }
                    }
                }
            }
            ctx.nontrivial(("C19top", text));
        }
    }
}
