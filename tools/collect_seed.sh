#!/bin/bash
# tools/collect_seed.sh <worktree> <seed-name>: copy patch.diff, tests/demo.rs, SEED_NOTES.md into seeded/<name>/
set -eu
WT=$1; NAME=$2
D=/verif/seeded/$NAME
mkdir -p "$D"
( cd "$WT" && git diff -- src ) > "$D/patch.diff"
if [ -f "$WT/patch.diff" ] && ! diff -q <(grep -v '^index ' "$WT/patch.diff") <(grep -v '^index ' "$D/patch.diff") >/dev/null; then echo "WARNING: agent's patch.diff differs from git diff -- src"; fi
cp "$WT/tests/demo.rs" "$D/demo.rs"
cp "$WT/SEED_NOTES.md" "$D/notes.md" 2>/dev/null || true
echo "collected $D: $(wc -l < "$D/patch.diff") diff lines, files: $(grep '^+++ ' "$D/patch.diff" | tr '\n' ' ')"
