#!/bin/bash
# Source-line coverage of /repo/src reached by the quick-tier workloads of all twenty checks
# (diagnostic only; not part of any registered command). Scratch under /tmp/cov, removed afterwards.
# Usage: tools/coverage.sh [tier]      (default quick)
set -u
TIER=${1:-quick}
S=/tmp/cov_$$
B=$(rustc +nightly --print sysroot)/lib/rustlib/x86_64-unknown-linux-gnu/bin
mkdir -p $S/prof $S/work
trap 'rm -rf $S' EXIT
cd /verif/harness || exit 2
LLVM_PROFILE_FILE=$S/build-%p.profraw CARGO_NET_OFFLINE=true CARGO_TARGET_DIR=$S/target RUSTFLAGS="-Cinstrument-coverage" cargo +nightly build --release -q 2>/dev/null || exit 2
cat > $S/run.sh <<EOS
#!/bin/bash
cd /verif/harness
LLVM_PROFILE_FILE=$S/prof/\$1-\$2-%p.profraw $S/target/release/tdmon \$1 --tier $TIER --scale native --lane rel --seed \${VERIF_SEED:-0} --shard \$2/16 --start 0 --cursor $S/work/\$1-\$2.cur --viollog $S/work/\$1-\$2.viol --out $S/work/\$1-\$2.out >/dev/null 2>$S/work/\$1-\$2.err
rc=\$?; [ \$rc -ne 0 ] && echo "\$1 shard \$2 rc=\$rc"
exit 0
EOS
chmod +x $S/run.sh
for p in $(seq -f "C%02g" 1 20); do for s in $(seq 0 15); do echo "$p $s"; done; done | xargs -P 16 -n 2 $S/run.sh
$B/llvm-profdata merge -sparse $S/prof/*.profraw -o $S/all.profdata
$B/llvm-cov report $S/target/release/tdmon -instr-profile=$S/all.profdata /repo/src 2>/dev/null
echo "--- lines never executed:"
for f in /repo/src/*.rs; do
  $B/llvm-cov show $S/target/release/tdmon -instr-profile=$S/all.profdata $f 2>/dev/null | grep -E "^ +[0-9]+\| +0\|" | sed "s|^|$(basename $f): |"
done
