#!/usr/bin/env python3
"""Mechanical mutation sweep over /repo/src (diagnostic; not part of any registered command).

  tools/mutate.py gen                 enumerate single-token mutants of the non-test sources
  tools/mutate.py phase1 [N]          16 workers: which mutants compile and pass the repository's own suite
  tools/mutate.py phase2 [--lanes l]  for each survivor of phase 1: run the checks (quick tier) against a
                                      scratch copy carrying the mutant (TOODEE_REPO), stop at the first alarm
  tools/mutate.py report              summary table

All scratch lives under /tmp/mut (never /repo); results are kept in /verif/mutation/.
"""
import concurrent.futures as cf
import hashlib
import json
import os
import random
import re
import shutil
import subprocess
import sys
import time

SRC = "/repo/src"
FILES = ["copy.rs", "flattenexact.rs", "iter.rs", "ops.rs", "serde.rs", "sort.rs", "toodee.rs", "translate.rs", "view.rs"]
S = "/tmp/mut"
OUT = "/verif/mutation"
SET = os.environ.get("MUT_SET", "")  # "" = first sweep, "2" = second operator set
RELEVANT = {
    "iter.rs": ["C08", "C09", "C10", "C02", "C12", "C07"],
    "view.rs": ["C03", "C02", "C08", "C09", "C10", "C20", "C13", "C14"],
    "toodee.rs": ["C01", "C06", "C07", "C05", "C11", "C12", "C20", "C02", "C03", "C04", "C08", "C09", "C10"],
    "ops.rs": ["C02", "C13", "C04", "C08"],
    "copy.rs": ["C14"],
    "sort.rs": ["C16", "C17"],
    "translate.rs": ["C15"],
    "serde.rs": ["C18", "C19"],
    "flattenexact.rs": ["C10", "C12", "C02", "C08"],
}
ALL = ["C%02d" % i for i in range(1, 21)]

# (name, regex, replacement) applied to the code part of a line, one occurrence at a time
OPS = [
    ("add->sub", r" \+ ", " - "), ("sub->add", r" - ", " + "), ("mul->add", r" \* ", " + "),
    ("div->mul", r" / ", " * "), ("rem->div", r" % ", " / "),
    ("lt->le", r" < ", " <= "), ("le->lt", r" <= ", " < "), ("gt->ge", r" > ", " >= "), ("ge->gt", r" >= ", " > "),
    ("eq->ne", r" == ", " != "), ("ne->eq", r" != ", " == "), ("lt->gt", r" < ", " > "), ("gt->lt", r" > ", " < "),
    ("and->or", r" && ", " || "), ("or->and", r" \|\| ", " && "),
    ("addassign->subassign", r" \+= ", " -= "), ("subassign->addassign", r" -= ", " += "),
    ("0->1", r"(?<![\w.])0(?![\w.])", "1"), ("1->0", r"(?<![\w.])1(?![\w.])", "0"), ("1->2", r"(?<![\w.])1(?![\w.])", "2"),
    ("drop+1", r" \+ 1(?![\w.])", ""), ("drop-1", r" - 1(?![\w.])", ""),
    (".0->.1", r"\.0(?![\w.])", ".1"), (".1->.0", r"\.1(?![\w.])", ".0"),
    ("cols->rows", r"\bnum_cols\b", "num_rows"), ("rows->cols", r"\bnum_rows\b", "num_cols"),
    ("start->end", r"\bstart\b", "end"), ("end->start", r"\bend\b", "start"),
    ("col->row", r"\bcol\b", "row"), ("row->col", r"\brow\b", "col"),
    ("true->false", r"\btrue\b", "false"), ("false->true", r"\bfalse\b", "true"),
    ("min->max", r"\bmin\(", "max("), ("max->min", r"\bmax\(", "min("),
    ("next->next_back", r"\bnext\(\)", "next_back()"), ("next_back->next", r"\bnext_back\(\)", "next()"),
    ("rotl->rotr", r"\brotate_left\b", "rotate_right"), ("rotr->rotl", r"\brotate_right\b", "rotate_left"),
    ("sat->wrap", r"\bsaturating_sub\b", "wrapping_sub"), ("wrapsub->wrapadd", r"\bwrapping_sub\b", "wrapping_add"),
    ("rangeincl->excl", r"\.\.=", ".."), ("range->incl", r"(?<=[\w)])\.\.(?=[\w(])", "..="),
    ("add->sub(ptr)", r"\.add\(", ".sub("), ("copy->copy_nonoverlapping", r"\bcopy\(", "copy_nonoverlapping("),
    ("is_some->is_none", r"\bis_some\b", "is_none"), ("is_empty->!", r"(\b[\w.()]+)\.is_empty\(\)", r"!\1.is_empty()"),
    ("stride->cols", r"\bstride\b", "num_cols"), ("len->cap", r"\.len\(\)", ".capacity()"),
    ("unstable->stable", r"sort_unstable_by", "sort_by"), ("lt0->ge", r"\bLess\b", "Greater"),
    ("neg-cond", r"\bif (?!let)([^{]+) \{$", r"if !(\1) {"),
]

OPS2 = [
    ("if->true", r"\bif (?!let\b)([^{]+) \{$", "if true {"), ("if->false", r"\bif (?!let\b)([^{]+) \{$", "if false {"),
    ("while->false", r"\bwhile (?!let\b)([^{]+) \{$", "while false {"),
    ("arg+1", r"\b(add|sub|set_len|reserve|rotate_left|rotate_right|split_at|split_at_mut|nth|nth_back|truncate|reserve_exact|skip|take|step_by)\(([^()]+)\)", r"\1((\2) + 1)"),
    ("arg-1", r"\b(add|sub|set_len|reserve|rotate_left|rotate_right|split_at|split_at_mut|nth|nth_back|truncate|reserve_exact|skip|take|step_by)\(([^()]+)\)", r"\1((\2) - 1)"),
    ("copy-n+1", r"\b(copy|copy_nonoverlapping)\(([^(),]+), ([^(),]+), ([^()]+)\)", r"\1(\2, \3, (\4) + 1)"),
    ("copy-n-1", r"\b(copy|copy_nonoverlapping)\(([^(),]+), ([^(),]+), ([^()]+)\)", r"\1(\2, \3, (\4) - 1)"),
    ("copy-swap-args", r"\b(copy|copy_nonoverlapping)\(([^(),]+), ([^(),]+), ([^()]+)\)", r"\1(\3 as *const _, \2 as *mut _, \4)"),
    ("range-lo+1", r"(?<![\w.])(\w[\w.()]*)\.\.(?=[\w(])", r"\1 + 1.."), ("range-hi-1", r"\.\.(\w[\w.()]*)(?![\w.(])", r"..\1 - 1"),
    ("range-hi+1", r"\.\.(\w[\w.()]*)(?![\w.(])", r"..\1 + 1"),
    ("Some->None", r"^(\s*)Some\(.*\)$", r"\1None"),
    ("mul->mul+1", r"(\w+) \* (\w+)", r"(\1 * \2 + 1)"),
    ("self.cols<->stride", r"\bself\.num_cols\b", "self.num_rows"), ("self.rows->cols", r"\bself\.num_rows\b", "self.num_cols"),
    ("skip->0", r"\bself\.skip_cols\b", "0"), ("skip1->0", r"\bself\.skip\b", "0"),
    ("front<->back", r"\bfrontiter\b", "backiter"), ("back<->front", r"\bbackiter\b", "frontiter"),
    ("read->copy", r"ptr::read\(", "ptr::read_unaligned("),
]


def code_part(line):
    """(code, rest) with a trailing // comment split off; None if the line carries nothing to mutate"""
    s = line.strip()
    if not s or s.startswith("//") or s.startswith("#[") or s.startswith("#!["):
        return None
    i = line.find("//")
    if i >= 0 and '"' not in line[:i]:
        return line[:i], line[i:]
    return line, ""


def gen():
    os.makedirs(OUT, exist_ok=True)
    muts = []
    for f in FILES:
        lines = open(os.path.join(SRC, f)).read().split("\n")
        skip_next = False
        for n, line in enumerate(lines):
            cp = code_part(line)
            if line.strip().startswith("#[cfg(test)]"):
                skip_next = True
                continue
            if skip_next:
                skip_next = False
                continue
            if cp is None:
                continue
            code, rest = cp
            if re.match(r"\s*(use|pub use|mod|pub mod|extern) ", code):
                continue
            for name, pat, rep in (OPS2 if SET == "2" else OPS):
                for m in re.finditer(pat, code):
                    new = code[:m.start()] + m.expand(rep) + code[m.end():]
                    if new == code:
                        continue
                    muts.append({"file": f, "line": n + 1, "op": name, "before": line, "after": new + rest})
            # statement deletion: a whole single-line statement that is not a binding
            st = code.strip()
            if SET == "" and st.endswith(";") and not re.match(r"(let|return|break|continue|type|const|static|pub|fn|impl|unsafe impl)\b", st) and st.count("(") == st.count(")"):
                muts.append({"file": f, "line": n + 1, "op": "delete-stmt", "before": line, "after": re.match(r"\s*", line).group(0) + "/* deleted */"})
    # dedupe identical results
    if SET == "2":
        first = {(m["file"], m["line"], m["after"]) for m in load("mutants.jsonl")}
        muts = [m for m in muts if (m["file"], m["line"], m["after"]) not in first and m["op"] not in ("self.cols<->stride", "self.rows->cols")]
    seen, out = set(), []
    for m in muts:
        k = (m["file"], m["line"], m["after"])
        if k in seen:
            continue
        seen.add(k)
        m["id"] = "M%04d" % len(out)
        out.append(m)
    with open(os.path.join(OUT, "mutants%s.jsonl" % SET), "w") as fh:
        for m in out:
            fh.write(json.dumps(m) + "\n")
    by = {}
    for m in out:
        by[m["file"]] = by.get(m["file"], 0) + 1
    print(len(out), "mutants", by)


def load(name):
    p = os.path.join(OUT, name)
    return [json.loads(l) for l in open(p)] if os.path.exists(p) else []


def apply(root, m):
    p = os.path.join(root, "src", m["file"])
    lines = open(os.path.join(SRC, m["file"])).read().split("\n")
    assert lines[m["line"] - 1] == m["before"], "source changed under the mutant list"
    lines[m["line"] - 1] = m["after"]
    open(p, "w").write("\n".join(lines))


def restore(root, m):
    shutil.copy(os.path.join(SRC, m["file"]), os.path.join(root, "src", m["file"]))


def mkcopy(root):
    if os.path.exists(root):
        return
    os.makedirs(root)
    for x in ("Cargo.toml", "Cargo.lock", "src", "benches", "README.md"):
        s = os.path.join("/repo", x)
        if os.path.isdir(s):
            shutil.copytree(s, os.path.join(root, x))
        elif os.path.exists(s):
            shutil.copy(s, root)


def p1_worker(args):
    w, chunk = args
    root = os.path.join(S, "w%d" % w)
    mkcopy(root)
    env = dict(os.environ, CARGO_NET_OFFLINE="true", CARGO_BUILD_JOBS="2")
    res = []
    for m in chunk:
        apply(root, m)
        t0 = time.time()
        try:
            b = subprocess.run(["cargo", "test", "--offline", "-q", "--no-run"], cwd=root, env=env, stdout=subprocess.PIPE, stderr=subprocess.STDOUT, text=True, timeout=600)
            if b.returncode != 0:
                st = "nocompile"
            else:
                p = subprocess.run(["cargo", "test", "--offline", "-q"], cwd=root, env=env, stdout=subprocess.PIPE, stderr=subprocess.STDOUT, text=True, timeout=120)
                st = "survived" if p.returncode == 0 else "killed_by_suite"
        except subprocess.TimeoutExpired:
            st = "suite_timeout"
        restore(root, m)
        res.append({"id": m["id"], "status": st, "secs": round(time.time() - t0, 1)})
    return res


def phase1(limit=None):
    muts = load("mutants%s.jsonl" % SET)
    done = {r["id"] for r in load("phase1%s.jsonl" % SET)}
    todo = [m for m in muts if m["id"] not in done]
    if limit:
        random.Random(1).shuffle(todo)
        todo = todo[:limit]
    os.makedirs(S, exist_ok=True)
    W = 16
    # small chunks so that results are flushed regularly
    chunks = [todo[i:i + 8] for i in range(0, len(todo), 8)]
    jobs = []
    with cf.ProcessPoolExecutor(W) as ex, open(os.path.join(OUT, "phase1%s.jsonl" % SET), "a") as fh:
        free = list(range(W))
        pending = {}
        it = iter(chunks)
        n = 0
        while True:
            while free:
                c = next(it, None)
                if c is None:
                    break
                w = free.pop()
                pending[ex.submit(p1_worker, (w, c))] = w
            if not pending:
                break
            d, _ = cf.wait(pending, return_when=cf.FIRST_COMPLETED)
            for f in d:
                free.append(pending.pop(f))
                for r in f.result():
                    fh.write(json.dumps(r) + "\n")
                    n += 1
                fh.flush()
            print("phase1: %d/%d" % (n, len(todo)), flush=True)
    for w in range(W):
        shutil.rmtree(os.path.join(S, "w%d" % w), ignore_errors=True)


def p2_worker(args):
    """one mutant: stage A (thinned, dbg), stage B (full quick, dbg then rel) over the relevant checks"""
    w, m, stages = args
    root = os.path.join(S, "p2_%d" % w)
    mkcopy(root)
    tag = hashlib.sha1(os.path.realpath(root).encode()).hexdigest()[:10]
    apply(root, m)
    hit, incon, nrun = None, [], 0
    t0 = time.time()
    for (lane, stride, which) in stages:
        order = RELEVANT[m["file"]] if which == "relevant" else [c for c in ALL if c not in RELEVANT[m["file"]]]
        env = dict(os.environ, TOODEE_REPO=root, CARGO_BUILD_JOBS="4")
        if stride > 1:
            env["VERIF_EXP_STRIDE"] = str(stride)
        for c in order:
            p = subprocess.run(["./check", c, "--tier", "quick", "--lanes", lane, "--jobs", "4"], cwd="/verif", env=env,
                               stdout=subprocess.PIPE, stderr=subprocess.STDOUT, text=True)
            nrun += 1
            if p.returncode == 1:
                v = [l for l in p.stdout.splitlines() if l.startswith("  ") and " | " in l]
                hit = {"check": c, "lane": lane, "stride": stride, "first": (v[0].strip()[:200] if v else "")}
                break
            if p.returncode != 0:
                incon.append({"check": c, "lane": lane, "rc": p.returncode, "tail": p.stdout[-300:]})
        if hit:
            break
    restore(root, m)
    shutil.rmtree(os.path.join("/verif/harness/target/alt", tag, "out"), ignore_errors=True)
    return {"id": m["id"], "file": m["file"], "line": m["line"], "op": m["op"], "detected": hit, "inconclusive": incon,
            "checks_run": nrun, "secs": round(time.time() - t0, 1)}


def phase2(stages, limit=None, ids=None, outname="phase2%s.jsonl" % SET):
    muts = {m["id"]: m for m in load("mutants%s.jsonl" % SET)}
    surv = [r["id"] for r in load("phase1%s.jsonl" % SET) if r["status"] == "survived"]
    random.Random(7).shuffle(surv)
    if ids:
        surv = ids
    done = {r["id"] for r in load(outname)}
    todo = [x for x in surv if x not in done]
    if limit:
        todo = todo[:limit]
    K = 4
    with cf.ProcessPoolExecutor(K) as ex, open(os.path.join(OUT, outname), "a") as fh:
        free, pending, it, n = list(range(K)), {}, iter(todo), 0
        while True:
            while free:
                mid = next(it, None)
                if mid is None:
                    break
                w = free.pop()
                pending[ex.submit(p2_worker, (w, muts[mid], stages))] = w
            if not pending:
                break
            d, _ = cf.wait(pending, return_when=cf.FIRST_COMPLETED)
            for f in d:
                free.append(pending.pop(f))
                r = f.result()
                fh.write(json.dumps(r) + "\n")
                fh.flush()
                n += 1
                h = r["detected"]
                print("phase2 %d/%d %s %s:%d %s -> %s%s (%.0fs)" % (n, len(todo), r["id"], r["file"], r["line"], r["op"],
                      ("%s/%s" % (h["check"], h["lane"]) if h else "NOT DETECTED"), (" incon=%d" % len(r["inconclusive"]) if r["inconclusive"] else ""), r["secs"]), flush=True)
    for w in range(K):
        root = os.path.join(S, "p2_%d" % w)
        tag = hashlib.sha1(os.path.realpath(root).encode()).hexdigest()[:10]
        shutil.rmtree(os.path.join("/verif/harness/target/alt", tag), ignore_errors=True)
        shutil.rmtree(root, ignore_errors=True)


def report():
    muts = {m["id"]: m for m in load("mutants%s.jsonl" % SET)}
    p1 = load("phase1%s.jsonl" % SET)
    p2 = load("phase2%s.jsonl" % SET)
    c = {}
    for r in p1:
        c[r["status"]] = c.get(r["status"], 0) + 1
    print("mutants", len(muts), "phase1", c)
    det = [r for r in p2 if r["detected"]]
    sur = [r for r in p2 if not r["detected"]]
    print("phase2: %d run, %d detected, %d not detected (%d of them with an inconclusive check)" % (len(p2), len(det), len(sur), sum(1 for r in sur if r["inconclusive"])))
    for r in sur:
        m = muts[r["id"]]
        print("  %s %s:%d [%s]%s\n      - %s\n      + %s" % (r["id"], m["file"], m["line"], m["op"], " INCONCLUSIVE" if r["inconclusive"] else "", m["before"].strip(), m["after"].strip()))


if __name__ == "__main__":
    cmd = sys.argv[1]
    if cmd == "gen":
        gen()
    elif cmd == "phase1":
        phase1(int(sys.argv[2]) if len(sys.argv) > 2 else None)
    elif cmd == "phase2":
        lim = int(sys.argv[sys.argv.index("--limit") + 1]) if "--limit" in sys.argv else None
        if "--full" in sys.argv:
            # second pass over what the first pass did not detect
            muts = {m["id"]: m for m in load("mutants%s.jsonl" % SET)}
            nd = [r["id"] for r in load("phase2%s.jsonl" % SET) if not r["detected"]]
            def trivial(m):
                b = m["before"].strip()
                return (m["file"] == "view.rs" and 39 <= m["line"] <= 53) or b.startswith("debug_assert") or "with_capacity" in b \
                    or (b.startswith(("fn ", "unsafe fn ")) and b.endswith(";")) or "de::Error::" in b or "write_str" in b
            nd = [i for i in nd if not trivial(muts[i])]
            remapped = [i for i in nd if muts[i]["file"] in ("sort.rs", "translate.rs")]
            rest = [i for i in nd if i not in remapped]
            phase2([("dbg", 1, "relevant"), ("rel", 1, "relevant"), ("dbg", 4, "others")], lim, remapped, "phase2_full%s.jsonl" % SET)
            phase2([("dbg", 4, "others")], lim, rest, "phase2_full%s.jsonl" % SET)
        else:
            phase2([("dbg", 8, "relevant"), ("dbg", 1, "relevant"), ("rel", 1, "relevant")], lim)
    elif cmd == "report":
        report()
