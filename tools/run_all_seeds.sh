#!/bin/bash
# Re-runs every seeded change against the check of its property (dbg,rel lanes) and writes seeded/SUMMARY.txt.
# Usage: [PAR=4] tools/run_all_seeds.sh [seed-name ...]      (PAR seeds at a time, default 4)
cd /verif
SEEDS="$@"
[ -z "$SEEDS" ] && SEEDS=$(ls seeded | grep -E '^C[0-9]+-[a-z]$')
OUT=seeded/SUMMARY.txt
TMP=$(mktemp -d /tmp/seedsum.XXXX)
one() {
  s=$1
  p=$(python3 -c "import json;print(json.load(open('seeded/$s/meta.json'))['property'])")
  extra=""
  case $s in C02-c) extra="C11";; esac
  res=$(tools/try_seed.sh seeded/$s --lanes dbg,rel $p $extra 2>&1 | grep -E "^(demo|existing|check)" | sed 's/^/    /')
  det=$(echo "$res" | grep -c "violations=[1-9]")
  conf=$(echo "$res" | grep -c "(ok)")
  { echo "$s property=$p confirmed=$([ $conf -eq 3 ] && echo yes || echo NO) detected=$([ $det -ge 1 ] && echo yes || echo no)"; echo "$res"; } > $2/$s.txt
  head -1 $2/$s.txt
}
export -f one
echo $SEEDS | tr ' ' '\n' | VERIF_JOBS=6 xargs -P ${PAR:-4} -I{} bash -c "one {} $TMP"
for s in $SEEDS; do cat $TMP/$s.txt; done > $OUT
rm -rf $TMP
grep -c "detected=yes" $OUT; grep "detected=no\|confirmed=NO" $OUT
