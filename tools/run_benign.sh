#!/bin/bash
# Re-runs all quick checks (dbg,rel lanes by default) against each stored behaviour-preserving refactor.
cd /verif
LANES=${1:-dbg,rel}
for n in A B C D E F G; do
  [ -f /verif/benign/$n/refactor.diff ] || continue
  WT=/tmp/benign_$n
  git -C /repo worktree add -q --detach $WT HEAD || exit 2
  git -C $WT apply /verif/benign/$n/refactor.diff || { echo "benign $n: diff does not apply"; git -C /repo worktree remove --force $WT; continue; }
  echo "== benign $n"
  tools/try_refactor.sh $WT $LANES | grep -v silent
  git -C /repo worktree remove --force $WT
done
git -C /repo worktree prune
echo "benign probe done"
