#!/bin/bash
# tools/try_refactor.sh <worktree> [lanes]: run every quick check against a behaviour-preserving refactor
# in a scratch worktree (TOODEE_REPO); all must stay silent. Removes the alt build output afterwards.
WT=$(realpath "$1"); LANES=${2:-dbg,rel,asan}
cd /verif
bad=0
for p in C01 C02 C03 C04 C05 C06 C07 C08 C09 C10 C11 C12 C13 C14 C15 C16 C17 C18 C19 C20; do
  out=$(TOODEE_REPO="$WT" ./check $p --tier quick --lanes $LANES 2>&1); rc=$?
  if [ $rc -ne 0 ]; then bad=1; echo "$p rc=$rc"; echo "$out" | grep -E "^  |VIOLATION|INCONCLUSIVE" | head -8 | cut -c1-500; else echo "$p silent"; fi
done
tag=$(python3 -c "import hashlib,os;print(hashlib.sha1(os.path.realpath('$WT').encode()).hexdigest()[:10])")
rm -rf "/verif/harness/target/alt/$tag"
exit $bad
