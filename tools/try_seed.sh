#!/bin/bash
# Usage: tools/try_seed.sh <seed-dir> [--lanes a,b] [check ids...]
#   <seed-dir> contains patch.diff and demo.rs (an integration test using the public API only).
# 1. In a scratch worktree of /repo HEAD (under /tmp, removed afterwards): demo.rs passes on the
#    unchanged tree, the patch applies, demo.rs fails with it, the repository's own suite still passes.
# 2. Runs the given checks (quick tier) against the patched scratch worktree (TOODEE_REPO), never
#    touching /repo; build output and evidence of these runs live under harness/target/alt/ and are removed.
# Exit 0 if the seed is confirmed (step 1), regardless of detection; results in <seed-dir>/try.log.
set -u
SEED=$(realpath "$1"); shift
LANES=""
if [ "${1:-}" = "--lanes" ]; then LANES="--lanes $2"; shift 2; fi
CHECKS="$@"
WT=/tmp/seedwt_$$
LOG="$SEED/try.log"
: > "$LOG"
say() { echo "$@" | tee -a "$LOG"; }
cleanup() {
  tag=$(python3 -c "import hashlib,os;print(hashlib.sha1(os.path.realpath('$WT').encode()).hexdigest()[:10])")
  rm -rf "/verif/harness/target/alt/$tag"
  git -C /repo worktree remove --force "$WT" >/dev/null 2>&1; rm -rf "$WT"
}
trap cleanup EXIT
git -C /repo worktree add -q --detach "$WT" HEAD || exit 2
cd "$WT" || exit 2
mkdir -p tests && cp "$SEED/demo.rs" tests/demo.rs
export CARGO_NET_OFFLINE=true
if cargo test --offline --test demo >>"$LOG" 2>&1; then say "demo without patch: PASS (ok)"; else say "demo without patch: FAIL (seed rejected)"; exit 1; fi
if ! git apply "$SEED/patch.diff" >>"$LOG" 2>&1; then say "patch does not apply (seed rejected)"; exit 1; fi
if cargo test --offline --test demo >>"$LOG" 2>&1; then say "demo with patch: PASS (seed rejected)"; exit 1; else say "demo with patch: FAIL (ok)"; fi
rm -f tests/demo.rs
if cargo test --offline >>"$LOG" 2>&1; then say "existing suite with patch: PASS (ok)"; else say "existing suite with patch: FAIL (seed rejected)"; exit 1; fi
rm -rf target
cd /verif || exit 2
for c in $CHECKS; do
  out=$(TOODEE_REPO="$WT" ./check "$c" --tier quick $LANES 2>&1); rc=$?
  echo "$out" >> "$LOG"
  nv=$(echo "$out" | grep -c '^VIOLATION')
  say "check $c: exit=$rc violations=$nv $(echo "$out" | grep -m1 -E '^  [^ ].* \| ' | cut -c1-200)"
done
exit 0
